"""Fault catalogue shared by C07 (severity) and C17 (culprit position).
Each entry: id, fragment (text inserted as its own line(s), '\t'-indented by the planter), severity ('error'|'warning'),
phase, culprit = (line offset inside the fragment, substring whose first occurrence on that line is the culprit token,
or None for 'statement start'), strictness of the column ('strict' | 'stmt-or-operand')."""

E = []


def f(fid, text, sev, phase, culprit=None, col="strict", tree=None, kinds=None):
    E.append({"id": fid, "text": text, "sev": sev, "phase": phase, "culprit": culprit, "col": col, "tree": tree or {}, "kinds": kinds})


# ---- link-time errors ------------------------------------------------------------------------------------------
f("undef", "clr undefsym1", "error", "link", (0, "undefsym1"))
f("undef-expr", "mov #1, undefsym2+2", "error", "link", (0, "undefsym2"))
f("word-oob", ".word 200000", "error", "link", (0, "200000"))
f("byte-oob", ".byte 1, 400", "error", "link", (0, "400"))
f("bad-digit", ".word 18", "error", "link", (0, "18"))
f("div-zero", ".word 1/0", "error", "link", (0, "1/0"))
f("neg-shift", ".word 1 << -1", "error", "link", (0, "1 << -1"))
f("far-branch", "br .+1000", "error", "link", (0, None), col="stmt-or-operand")
f("odd-branch", "br .+3", "error", "link", (0, None), col="stmt-or-operand")
f("sob-forward", "sob r0, .+10", "error", "link", (0, None), col="stmt-or-operand")
f("emt-oob", "emt 400", "error", "link", (0, None), col="stmt-or-operand")
f("bad-char-str", ".ascii \"\u03b1\"", "error", "link", (0, None), col="stmt-or-operand")
f("bad-char-lit", "mov #'\u03b1, r0", "error", "link", (0, "'\u03b1"))
f("bad-rad50", ".rad50 /a#/", "error", "link", (0, "/a#/"), col="stmt-or-operand")
f("blkb-neg", ".blkb -1", "error", "link", (0, "-1"))
f("repeat-neg", ".repeat -1 { nop }", "error", "link", (0, "-1"))
f("odd-address", ".byte 1\n.word 5\n.byte 1", "error", "link", (1, None))
f("reg-as-value", "clr r1+1", "error", "link", (0, "r1"))
f("angle-oob", ".ascii /a/ <400>", "error", "link", (0, "400"))
f("link-self", ".link .", "error", "link", (0, None), col="stmt-or-operand")
# ---- compile-time errors ---------------------------------------------------------------------------------------
f("unknown-insn", "bogus r0", "error", "compile", (0, None))
f("too-few-ops", "mov r0", "error", "compile", (0, None))
f("too-many-ops", "mov r0, r1, r2", "error", "compile", (0, None))
f("user-error", ".error oops", "error", "compile", (0, None))
f("dup-label", "dupl1: nop\ndupl1: nop", "error", "compile", (1, "dupl1"))
f("dup-assign", "dupa1 = 1\ndupa1 = 2", "error", "compile", (1, "dupa1"))
f("jsr-bad-reg", "jsr 5, (r1)", "error", "compile", (0, None), col="stmt-or-operand")
f("label-in-repeat", ".repeat 2 { inrep1: }", "error", "compile", (0, "inrep1"))
f("missing-insert", "insert_file \"nonexistent.bin\"", "error", "compile", (0, None))
f("missing-include", ".include \"nonexistent.mac\"", "error", "compile", (0, None))
f("extern-number", ".extern 5", "error", "compile", (0, "5"))
f("blkb-no-operand", ".blkb", "error", "compile", (0, None))
f("repeat-no-block", ".repeat 2", "error", "compile", (0, None))
f("long-tape-name", "make_wav \"x17.wav\", \"seventeen chars!!\"", "error", "compile", (0, None))
f("label-as-insn", "lblinsn1: nop\nlblinsn1", "error", "compile", (1, None))
f("hash-in-meta", ".word #5", "error", "compile", (0, "#5"))
f("fp-bad-acc", "ldf r6, ac0", "error", "compile", (0, "r6"))
# ---- parse-time, non-critical ----------------------------------------------------------------------------------
f("label-is-register", "r1: nop", "error", "parse", (0, None))
f("local-extern", "1:: nop", "error", "parse", (0, None))
f("dot-extern", ". == 5", "error", "parse", (0, None))
f("no-space", "clr%0", "error", "parse", (0, "%0"))
f("neg-bad-digit", ".word -8", "error", "parse", (0, "-8"))
f("bad-escape", ".ascii \"\\q\"", "error", "parse", (0, "\\q"))
f("long-rad50-lit", ".word ^RABCD", "error", "parse", (0, "^RABCD"))
f("bad-hex-escape", ".ascii \"a\\xg1\"", "error", "parse", (0, "\\x"))
f("empty-rad50-lit", ".word ^R", "error", "parse", (0, "^R"))
# ---- parse-time, critical (abort the run) ----------------------------------------------------------------------
f("unclosed-paren", "mov r0, (r1", "error", "parse-critical", None)
f("unterminated-string", ".ascii \"abc", "error", "parse-critical", (0, "\"abc"))
f("bad-caret", ".word ^Q1", "error", "parse-critical", (0, "^Q1"))
f("lonely-quote", "mov #'", "error", "parse-critical", (0, "'"))
f("comma-after-insn", "mov, r0", "error", "parse-critical", (0, ","))
f("trailing-comma", ".word 1,", "error", "parse-critical", (0, ","), col="any")
f("bad-binary", ".word ^B2", "error", "parse-critical", (0, "^B"))
f("assign-nothing", "asgn1 =", "error", "parse-critical", (0, "="))
# ---- warnings --------------------------------------------------------------------------------------------------
f("w-implicit-operand", ".word", "warning", "compile", kinds=["implicit-operand"])
f("w-not-implemented", ".list", "warning", "compile", kinds=["not-implemented"])
f("w-legacy-deferred", "clr @r0", "warning", "compile", kinds=["legacy-deferred"])
f("w-implicit-index", "inc @(r2)", "warning", "compile", kinds=["implicit-index"])
f("w-label-fixup", "77: br 77+2", "warning", "compile", kinds=["label-fixup"])
f("w-excess-hash", "emt #1", "warning", "compile", kinds=["excess-hash"])
f("w-excess-quote", ".word 'x'", "warning", "parse", kinds=["excess-quote"])
f("w-suspicious-name", "mov: nop", "warning", "parse", kinds=["suspicious-name"])
f("w-meta-typo", "blkb 2", "warning", "compile", kinds=["meta-typo"])
f("w-missing-newline", "nop nop", "warning", "parse", kinds=["missing-newline"])

BY_ID = {e["id"]: e for e in E}
ERRORS = [e for e in E if e["sev"] == "error"]
WARNINGS = [e for e in E if e["sev"] == "warning"]
