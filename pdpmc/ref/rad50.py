"""Independent RADIX-50 reference (DEC definition): code 0 = space, 1..26 = A..Z,
27 = $, 28 = ., 29 = the unassigned code (printed %), 30..39 = 0..9; a word holds
three characters, most significant first, base 40."""

ALPHABET = " " + "".join(chr(ord("A") + i) for i in range(26)) + "$.%" + "0123456789"
assert len(ALPHABET) == 40


def unpack_word(word):
    c1, rest = divmod(word, 40 * 40)
    c2, c3 = divmod(rest, 40)
    if c1 >= 40:
        raise ValueError("not a RADIX-50 word: %o" % word)
    return c1, c2, c3


def unpack_codes(data):
    """bytes (little-endian words) -> list of character codes"""
    assert len(data) % 2 == 0
    out = []
    for i in range(0, len(data), 2):
        out.extend(unpack_word(data[i] | (data[i + 1] << 8)))
    return out


def unpack(data):
    return "".join(ALPHABET[c] for c in unpack_codes(data))


VECTORS = [
    ("ABC", 0o003223),
    ("   ", 0),
    ("  A", 1),
    ("A  ", 0o3100),
    ("999", 0o174777),
    ("$.%", 27 * 1600 + 28 * 40 + 29),
    ("XYZ", 24 * 1600 + 25 * 40 + 26),
]


def selftest():
    for s, w in VECTORS:
        got = unpack(bytes([w & 255, w >> 8]))
        assert got == s, (s, w, got)
    return len(VECTORS)
