"""Independent PDP-11 reference: instruction table (written from the processor handbook, FP11, CIS,
LSI-11 and 1801VM2 descriptions - see DESIGN.md Appendix A; *not* derived from pdpy11/architecture.py)
and a decoder that recovers (operation, operands, words consumed) from machine words.

An operation is identified by (class, base opcode).  Classes:
 Z  no operand                 R   register in bits 2-0
 D  one general operand 5-0    SD  source 11-6, destination 5-0
 RD register 8-6, operand 5-0 (assembler order: reg, dst)     SR the same bits, assembler order: src, reg
 B  signed 8-bit word displacement     SOB register 8-6 + 6-bit backward displacement
 N3/N6/N8 inline number of 3/6/8 bits
 FD one FP operand 5-0 (mode 0 = accumulator)
 FSA AC 7-6 + FP operand 5-0, assembler order: fsrc, ac       AFD the same bits, assembler order: ac, fdst
 AD  AC 7-6 + general operand, order: ac, dst                 SA  the same bits, order: src, ac
"""

MASK = {"Z": 0o177777, "R": 0o177770, "D": 0o177700, "SD": 0o170000, "RD": 0o177000, "SR": 0o177000,
        "B": 0o177400, "SOB": 0o177000, "N3": 0o177770, "N6": 0o177700, "N8": 0o177400,
        "FD": 0o177700, "FSA": 0o177400, "AFD": 0o177400, "AD": 0o177400, "SA": 0o177400}

T = {}


def _add(cls, base, *names):
    for n in names:
        assert n not in T, n
        T[n] = (cls, base, None)


for _v, _n in [(0o0, "halt"), (0o0, "hlt"), (0o1, "wait"), (0o2, "rti"), (0o3, "bpt"), (0o4, "iot"), (0o5, "reset"),
               (0o6, "rtt"), (0o7, "mfpt"), (0o12, "start"), (0o16, "step"), (0o20, "rd"), (0o21, "urd"),
               (0o22, "rdpc"), (0o24, "rdps"), (0o31, "uwr"), (0o32, "wrpc"), (0o34, "wrps"), (0o220, "u3000"),
               (0o240, "nop")]:
    _add("Z", _v, _n)
for _bits in range(1, 16):
    _suffix = ("n" if _bits & 8 else "") + ("z" if _bits & 4 else "") + ("v" if _bits & 2 else "") + ("c" if _bits & 1 else "")
    _add("Z", 0o240 | _bits, "cl" + _suffix)
    _add("Z", 0o260 | _bits, "se" + _suffix)
_add("Z", 0o257, "ccc")
_add("Z", 0o277, "scc")
_CIS = {0o30: "movc", 0o31: "movrc", 0o32: "movtc", 0o40: "locc", 0o41: "skpc", 0o42: "scanc", 0o43: "spanc",
        0o44: "cmpc", 0o45: "matc", 0o50: "addn", 0o51: "subn", 0o52: "cmpn", 0o53: "cvtnl", 0o54: "cvtpn",
        0o55: "cvtnp", 0o56: "ashn", 0o57: "cvtln", 0o70: "addp", 0o71: "subp", 0o72: "cmpp", 0o73: "cvtpl",
        0o74: "mulp", 0o75: "divp", 0o76: "ashp", 0o77: "cvtlp"}
for _v, _n in _CIS.items():
    _add("Z", 0o76000 | _v, _n)
    _add("Z", 0o76100 | _v, _n + "i")
_add("Z", 0o76600, "med", "med6x")
_add("Z", 0o76601, "med74c")
for _v, _names in [(0o170000, ("cfcc",)), (0o170001, ("setf",)), (0o170002, ("seti",)), (0o170003, ("ldub",)),
                   (0o170004, ("mns", "msn", "ldsc")), (0o170005, ("mpp", "sta0")), (0o170006, ("mrs", "stb0")),
                   (0o170007, ("stq0",)), (0o170011, ("setd",)), (0o170012, ("setl",))]:
    _add("Z", _v, *_names)
for _v, _n in [(0o200, "rts"), (0o210, "medlsi"), (0o75000, "fadd"), (0o75010, "fsub"), (0o75020, "fmul"),
               (0o75030, "fdiv"), (0o76020, "l2dr"), (0o76060, "l3dr")]:
    _add("R", _v, _n)
for _v, _n in [(0o100, "jmp"), (0o300, "swab"), (0o5000, "clr"), (0o5100, "com"), (0o5200, "inc"), (0o5300, "dec"),
               (0o5400, "neg"), (0o5500, "adc"), (0o5600, "sbc"), (0o5700, "tst"), (0o6000, "ror"), (0o6100, "rol"),
               (0o6200, "asr"), (0o6300, "asl"), (0o6500, "mfpi"), (0o6600, "mtpi"), (0o6700, "sxt"), (0o7000, "csm"),
               (0o7200, "tstset"), (0o7300, "wrtlck"),
               (0o105000, "clrb"), (0o105100, "comb"), (0o105200, "incb"), (0o105300, "decb"), (0o105400, "negb"),
               (0o105500, "adcb"), (0o105600, "sbcb"), (0o105700, "tstb"), (0o106000, "rorb"), (0o106100, "rolb"),
               (0o106200, "asrb"), (0o106300, "aslb"), (0o106400, "mtps"), (0o106500, "mfpd"), (0o106600, "mtpd"),
               (0o106700, "mfps"), (0o170100, "ldfps"), (0o170200, "stfps"), (0o170300, "stst")]:
    _add("D", _v, _n)
for _v, _n in [(0o10000, "mov"), (0o20000, "cmp"), (0o30000, "bit"), (0o40000, "bic"), (0o50000, "bis"), (0o60000, "add"),
               (0o110000, "movb"), (0o120000, "cmpb"), (0o130000, "bitb"), (0o140000, "bicb"), (0o150000, "bisb"),
               (0o160000, "sub")]:
    _add("SD", _v, _n)
_add("RD", 0o4000, "jsr")
_add("RD", 0o74000, "xor")
for _v, _n in [(0o70000, "mul"), (0o71000, "div"), (0o72000, "ash"), (0o73000, "ashc")]:
    _add("SR", _v, _n)
for _v, _names in [(0o400, ("br",)), (0o1000, ("bne",)), (0o1400, ("beq",)), (0o2000, ("bge",)), (0o2400, ("blt",)),
                   (0o3000, ("bgt",)), (0o3400, ("ble",)), (0o100000, ("bpl",)), (0o100400, ("bmi",)),
                   (0o101000, ("bhi",)), (0o101400, ("blos",)), (0o102000, ("bvc",)), (0o102400, ("bvs",)),
                   (0o103000, ("bcc", "bhis")), (0o103400, ("bcs", "blo"))]:
    _add("B", _v, *_names)
_add("SOB", 0o77000, "sob")
_add("N3", 0o230, "spl")
_add("N6", 0o6400, "mark")
_add("N6", 0o76700, "xfc")
_add("N8", 0o104000, "emt")
_add("N8", 0o104400, "trap", "sys")
for _v, _names in [(0o170400, ("clrf", "clrd")), (0o170500, ("tstf", "tstd")), (0o170600, ("absf", "absd")),
                   (0o170700, ("negf", "negd"))]:
    _add("FD", _v, *_names)
for _v, _names in [(0o171000, ("mulf", "muld")), (0o171400, ("modf", "modd")), (0o172000, ("addf", "addd")),
                   (0o172400, ("ldf", "ldd")), (0o173000, ("subf", "subd")), (0o173400, ("cmpf", "cmpd")),
                   (0o174400, ("divf", "divd")), (0o177400, ("ldcfd", "ldcdf"))]:
    _add("FSA", _v, *_names)
_add("AFD", 0o174000, "stf", "std")
_add("AFD", 0o176000, "stcfd", "stcdf")
_add("AD", 0o175000, "stexp")
_add("AD", 0o175400, "stcfi", "stcfl", "stcdi", "stcdl")
_add("SA", 0o176400, "ldexp")
_add("SA", 0o177000, "ldcif", "ldcid", "ldclf", "ldcld")
# pseudo-instructions: (class, base, expansion)
T["pop"] = ("SD", 0o10000, "pop")        # pop X   = mov (sp)+, X
T["push"] = ("SD", 0o10000, "push")      # push X  = mov X, -(sp)
T["call"] = ("RD", 0o4000, "call")       # call X  = jsr pc, X
T["callr"] = ("D", 0o100, None)          # callr X = jmp X
T["ret"] = ("R", 0o200, "ret")           # ret     = rts pc
T["return"] = ("R", 0o200, "ret")

# decode order: most specific mask first
_OPS = sorted({(cls, base) for cls, base, _ in T.values()}, key=lambda cb: (-bin(MASK[cb[0]]).count("1"), cb[1]))


class DecodeError(Exception):
    pass


def _operand(field, words, pos, fp=False):
    """decode a 6-bit operand field; returns (dict, new pos). pos indexes the next extension word."""
    mode, reg = (field >> 3) & 7, field & 7
    op = {"mode": mode, "reg": reg, "ext": None, "ext_index": None, "fp": fp}
    needs = mode in (6, 7) or (reg == 7 and mode in (2, 3))
    if fp and mode == 0:
        needs = False
    if needs:
        if pos >= len(words):
            raise DecodeError("operand extension word missing")
        op["ext"] = words[pos]
        op["ext_index"] = pos
        pos += 1
    return op, pos


def decode(words, pos=0):
    """returns (cls, base, operands, next_pos).  operands follow *assembler* operand order."""
    if pos >= len(words):
        raise DecodeError("no word to decode")
    w = words[pos]
    for cls, base in _OPS:
        if w & MASK[cls] == base:
            break
    else:
        raise DecodeError("no instruction has opcode %06o" % w)
    nxt = pos + 1
    ops = []
    if cls == "Z":
        pass
    elif cls == "R":
        ops = [{"reg": w & 7}]
    elif cls in ("D", "FD"):
        o, nxt = _operand(w & 0o77, words, nxt, fp=cls == "FD")
        ops = [o]
    elif cls == "SD":
        s, nxt = _operand((w >> 6) & 0o77, words, nxt)
        d, nxt = _operand(w & 0o77, words, nxt)
        ops = [s, d]
    elif cls == "RD":
        d, nxt = _operand(w & 0o77, words, nxt)
        ops = [{"reg": (w >> 6) & 7}, d]
    elif cls == "SR":
        s, nxt = _operand(w & 0o77, words, nxt)
        ops = [s, {"reg": (w >> 6) & 7}]
    elif cls == "B":
        d = w & 0o377
        ops = [{"disp": d - 256 if d & 0o200 else d}]
    elif cls == "SOB":
        ops = [{"reg": (w >> 6) & 7}, {"disp": -(w & 0o77)}]
    elif cls == "N3":
        ops = [{"num": w & 7}]
    elif cls == "N6":
        ops = [{"num": w & 0o77}]
    elif cls == "N8":
        ops = [{"num": w & 0o377}]
    elif cls == "FSA":
        s, nxt = _operand(w & 0o77, words, nxt, fp=True)
        ops = [s, {"ac": (w >> 6) & 3}]
    elif cls == "AFD":
        d, nxt = _operand(w & 0o77, words, nxt, fp=True)
        ops = [{"ac": (w >> 6) & 3}, d]
    elif cls == "AD":
        d, nxt = _operand(w & 0o77, words, nxt)
        ops = [{"ac": (w >> 6) & 3}, d]
    elif cls == "SA":
        s, nxt = _operand(w & 0o77, words, nxt)
        ops = [s, {"ac": (w >> 6) & 3}]
    return cls, base, ops, nxt


def effective_address(op, base_addr):
    """for PC-relative operands (mode 6/7 on r7): the address the processor computes.
    base_addr is the address of words[0]."""
    assert op["reg"] == 7 and op["mode"] in (6, 7)
    return (base_addr + 2 * op["ext_index"] + 2 + op["ext"]) & 0xFFFF


def to_words(data):
    if len(data) % 2:
        raise DecodeError("odd number of bytes")
    return [data[i] | (data[i + 1] << 8) for i in range(0, len(data), 2)]


# handbook encodings
VECTORS = [
    ([0o012700, 0o000001], ("SD", 0o10000), [(2, 7, 1), (0, 0, None)]),     # mov #1, r0
    ([0o000777], ("B", 0o400), -1),                                           # br .
    ([0o077001], ("SOB", 0o77000), (0, -1)),                                  # sob r0, .
    ([0o004737, 0o001000], ("RD", 0o4000), [7, (3, 7, 0o1000)]),              # jsr pc, @#1000
    ([0o104377], ("N8", 0o104000), 0o377),                                    # emt 377
    ([0o070127, 0o000003], ("SR", 0o70000), [(2, 7, 3), 1]),                  # mul #3, r1
    ([0o172721], ("FSA", 0o172400), [(2, 1, None), 3]),                       # ldf (r1)+, ac3
    ([0o000207], ("R", 0o200), 7),                                            # rts pc
    ([0o005067, 0o177774], ("D", 0o5000), [(6, 7, 0o177774)]),                # clr . (relative)
    ([0o016162, 0o000002, 0o000004], ("SD", 0o10000), [(6, 1, 2), (6, 2, 4)]),  # mov 2(r1), 4(r2)
    ([0o000240], ("Z", 0o240), None),
    ([0o174046], ("AFD", 0o174000), [0, (4, 6, None)]),                       # stf ac0, -(sp)
]


def selftest():
    for words, op, want in VECTORS:
        cls, base, ops, nxt = decode(words)
        assert (cls, base) == op, (words, cls, base)
        assert nxt == len(words), (words, nxt)
        if cls == "B":
            assert ops[0]["disp"] == want
        elif cls == "SOB":
            assert (ops[0]["reg"], ops[1]["disp"]) == want
        elif cls == "N8":
            assert ops[0]["num"] == want
        elif cls == "R":
            assert ops[0]["reg"] == want
        elif cls == "Z":
            assert ops == []
        else:
            for o, w in zip(ops, want):
                if isinstance(w, tuple):
                    assert (o["mode"], o["reg"], o["ext"]) == w, (words, o, w)
                else:
                    assert o.get("reg", o.get("ac")) == w, (words, o, w)
    assert len(T) == 252, len(T)
    # the decode tree is unambiguous: every table base decodes to its own (class, base)
    for name, (cls, base, _x) in T.items():
        c, b, _o, _n = decode([base, 0, 0])
        assert (c, b) == (cls, base), (name, oct(base), c, oct(b))
    return len(VECTORS) + len(T)
