"""Reference for the BK-0010 output charset as the property states it: ASCII on
0x00-0x7E, KOI8-R on 0xC0-0xFF (Python's own codec is the independent source),
anything else only has to be a bijection."""


def expected_char(b):
    """the character byte b must decode to, or None where only bijectivity is demanded"""
    if b <= 0x7E:
        return chr(b)
    if b >= 0xC0:
        return bytes([b]).decode("koi8_r")
    return None


VECTORS = [(0x41, "A"), (0x7E, "~"), (0xC0, "ю"), (0xC1, "а"), (0xE1, "А"), (0xFF, "Ъ"), (0xF1, "Я"), (0xD1, "я"), (0x20, " ")]


def selftest():
    for b, ch in VECTORS:
        assert expected_char(b) == ch, (b, ch, expected_char(b))
    assert expected_char(0x7F) is None and expected_char(0xBF) is None
    return len(VECTORS)
