"""Known-answer vectors for every reference model; run by MANIFEST.setup_cmd."""
import importlib
import sys

MODELS = ["rad50", "charset", "isa", "expr", "tape"]


def main():
    ok = True
    for m in MODELS:
        try:
            mod = importlib.import_module("pdpmc.ref." + m)
        except ModuleNotFoundError:
            continue
        try:
            n = mod.selftest()
            print("ref.%s: %d vectors ok" % (m, n))
        except AssertionError as ex:
            ok = False
            print("ref.%s: SELFTEST FAILED %r" % (m, ex))
    from pdpmc import driver
    print("repository under test: %s" % driver.REPO)
    return 0 if ok else 1
