"""Reference semantics of pdpy11 constant expressions, as documented (README / property C05):
unbounded integers; infix tiers  * / %  >  + -  >  << >> _  >  &  >  ^  >  | ! , all left-associative;
prefix + - ~ ^C bind tighter than any infix operator; / and % floor toward minus infinity;
_ shifts left by a signed count; errors for /0, %0 and negative counts of << and >>.
Trees are built by the generator (no parsing in the oracle):
  ("lit", v) | ("bin", op, l, r) | ("un", op, x) | ("grp", x)   ("grp" = explicit brackets)"""

TIER = {"*": 6, "/": 6, "%": 6, "+": 5, "-": 5, "<<": 4, ">>": 4, "_": 4, "&": 3, "^": 2, "|": 1, "!": 1}
INFIX = list(TIER)
PREFIX = ["+", "-", "~", "^C"]


class RefError(Exception):
    pass


class TooBig(Exception):
    """the reference value would need an astronomically large integer: such trees are not generated"""


LIMIT_BITS = 8192   # values beyond 2**8192 (and shift counts beyond 8192) are outside the generated space


def floor_shift_right(a, n):
    """floor(a / 2**n) for n >= 0 without building 2**n"""
    if n > a.bit_length():
        return 0 if a >= 0 else -1
    return a >> n  # Python's >> on ints is an arithmetic (floor) shift; checked against // in selftest


def evaluate(t, env=None):
    v = _evaluate(t, env)
    if v.bit_length() > LIMIT_BITS:
        raise TooBig()
    return v


def bounded_after_error(t, env=None):
    """Resource guard only (never an oracle): an assembler that reports an arithmetic error and carries on
    with *some* substitute value may meet a later shift by an astronomically large count.  This evaluates the
    tree with the plausible substitutes (0 for a division by zero, the opposite shift for a negative count) and
    raises TooBig if any intermediate value leaves the generated space, so that such trees are not generated."""
    k = t[0]
    if k == "lit":
        return t[1]
    if k == "leaf":
        return env[t[1]]
    if k == "grp":
        return bounded_after_error(t[1], env)
    if k == "un":
        x = bounded_after_error(t[2], env)
        return {"+": x, "-": -x, "~": -x - 1, "^C": -x - 1}[t[1]]
    a, b = bounded_after_error(t[2], env), bounded_after_error(t[3], env)
    op = t[1]
    if op in ("/", "%") and b == 0:
        return 0
    if op in ("<<", ">>", "_") and abs(b) > LIMIT_BITS:
        raise TooBig()
    if op in ("<<", ">>") and b < 0:
        op, b = ("<<" if op == ">>" else ">>"), -b
    v = _evaluate(("bin", op, ("lit", a), ("lit", b)))
    if v.bit_length() > LIMIT_BITS:
        raise TooBig()
    return v


def _evaluate(t, env=None):
    k = t[0]
    if k == "lit":
        return t[1]
    if k == "leaf":  # ("leaf", index) resolved through env
        return env[t[1]]
    if k == "grp":
        return evaluate(t[1], env)
    if k == "un":
        x = evaluate(t[2], env)
        return {"+": x, "-": -x, "~": -x - 1, "^C": -x - 1}[t[1]]
    a, b = evaluate(t[2], env), evaluate(t[3], env)
    op = t[1]
    if op == "+":
        return a + b
    if op == "-":
        return a - b
    if op == "*":
        return a * b
    if op in ("/", "%"):
        if b == 0:
            raise RefError("division by zero")
        q = a // b  # floor
        return q if op == "/" else a - q * b
    if op in ("<<", ">>", "_") and abs(b) > LIMIT_BITS:
        raise TooBig()
    if op == "*" and a.bit_length() + b.bit_length() > LIMIT_BITS:
        raise TooBig()
    if op == "<<":
        if b < 0:
            raise RefError("negative shift")
        return a * 2 ** b
    if op == ">>":
        if b < 0:
            raise RefError("negative shift")
        return floor_shift_right(a, b)
    if op == "_":
        return a * 2 ** b if b >= 0 else floor_shift_right(a, -b)
    if op == "&":
        return a & b
    if op == "^":
        return a ^ b
    if op in ("|", "!"):
        return a | b
    raise AssertionError(op)


def shapes(n):
    """all binary tree shapes with n operators; leaves numbered left to right, operators too"""
    def build(lo, hi):  # operators lo..hi-1, leaves lo..hi
        if lo == hi:
            return [("leaf", lo)]
        out = []
        for root in range(lo, hi):
            for l in build(lo, root):
                for r in build(root + 1, hi):
                    out.append(("op", root, l, r))
        return out
    return build(0, n)


def instantiate(shape, ops):
    if shape[0] == "leaf":
        return shape
    return ("bin", ops[shape[1]], instantiate(shape[2], ops), instantiate(shape[3], ops))


def climb(ops, leaves):
    """reference reading of the flat sequence leaf0 op0 leaf1 op1 ... (precedence climbing)"""
    pos = [0]

    def parse(min_tier):
        lhs = leaves[pos[0]]
        while pos[0] < len(ops) and TIER[ops[pos[0]]] >= min_tier:
            op = ops[pos[0]]
            pos[0] += 1
            rhs = parse(TIER[op] + 1)
            lhs = ("bin", op, lhs, rhs)
        return lhs
    return parse(0)


VECTORS = [
    (("bin", "/", ("lit", -7), ("lit", 2)), -4),
    (("bin", "%", ("lit", -7), ("lit", 2)), 1),
    (("bin", "%", ("lit", 7), ("lit", -2)), -1),
    (("bin", "_", ("lit", 5), ("lit", -1)), 2),
    (("bin", "_", ("lit", -5), ("lit", -1)), -3),
    (("bin", ">>", ("lit", -5), ("lit", 1)), -3),
    (("bin", "<<", ("lit", 3), ("lit", 4)), 48),
    (("un", "~", ("lit", 5)), -6),
    (("un", "^C", ("lit", 0)), -1),
    (("bin", "^", ("lit", 6), ("lit", 3)), 5),
    (("bin", "!", ("lit", 6), ("lit", 3)), 7),
]


def selftest():
    for t, v in VECTORS:
        assert evaluate(t) == v, (t, v, evaluate(t))
    # 1 + 2 * 3 = 7 ; 1 | 2 ^ 3 & 4 << 1 + 1 * 2 reads by tiers
    L = [("lit", x) for x in (1, 2, 3)]
    assert evaluate(climb(["+", "*"], L)) == 7
    assert evaluate(climb(["*", "+"], L)) == 5
    assert evaluate(climb(["-", "-"], L)) == -4
    assert evaluate(climb(["<<", "+"], L)) == 1 << 5
    assert evaluate(climb(["&", "^"], [("lit", 6), ("lit", 3), ("lit", 1)])) == 3
    assert evaluate(climb(["|", "&"], [("lit", 1), ("lit", 6), ("lit", 3)])) == 3
    assert len(shapes(3)) == 5 and len(shapes(2)) == 2
    for a in (-9, -8, -1, 0, 1, 7, 8, 1000):
        for n in range(0, 12):
            assert floor_shift_right(a, n) == a // 2 ** n, (a, n)
    for bad in (("bin", "/", ("lit", 1), ("lit", 0)), ("bin", "<<", ("lit", 1), ("lit", -1)), ("bin", ">>", ("lit", 1), ("lit", -1))):
        try:
            evaluate(bad)
            assert False, bad
        except RefError:
            pass
    return len(VECTORS) + 9
