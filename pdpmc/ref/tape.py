"""Independent readers for pdpy11's output containers: .bin, RIFF/WAVE, and a BK-0010 tape demodulator
written from the tape format description (pilot tone, long sync marker, per-bit pulse widths, least
significant bit first, 16-bit end-around-carry checksum), not from pdpy11/bk_wav.py: every threshold is
derived from the signal itself (the pilot period), no sample pattern is copied."""
import struct


class TapeError(Exception):
    pass


def read_bin(data):
    if len(data) < 4:
        raise TapeError("bin file shorter than its header")
    base, length = struct.unpack("<HH", data[:4])
    if len(data) - 4 != length:
        raise TapeError("bin length field %d but %d payload bytes" % (length, len(data) - 4))
    return base, data[4:]


def parse_riff(data):
    """returns (sample rate, samples) for a well-formed 8-bit mono PCM RIFF/WAVE file"""
    if len(data) < 12 or data[:4] != b"RIFF" or data[8:12] != b"WAVE":
        raise TapeError("not a RIFF/WAVE file")
    riff_size = struct.unpack("<I", data[4:8])[0]
    if riff_size != len(data) - 8:
        raise TapeError("RIFF size %d but file has %d bytes after the size field" % (riff_size, len(data) - 8))
    pos = 12
    fmt = None
    samples = None
    while pos < len(data):
        if pos + 8 > len(data):
            raise TapeError("truncated chunk header")
        cid, size = data[pos:pos + 4], struct.unpack("<I", data[pos + 4:pos + 8])[0]
        body = data[pos + 8:pos + 8 + size]
        if len(body) != size:
            raise TapeError("chunk %r announces %d bytes, %d present" % (cid, size, len(body)))
        if cid == b"fmt ":
            if size < 16:
                raise TapeError("fmt chunk too short")
            fmt = struct.unpack("<HHIIHH", body[:16])
        elif cid == b"data":
            samples = body
        pos += 8 + size + (size & 1)
    if fmt is None or samples is None:
        raise TapeError("fmt or data chunk missing")
    tag, channels, rate, byte_rate, align, bits = fmt
    if tag != 1 or channels != 1 or bits != 8:
        raise TapeError("not 8-bit mono PCM: tag %d channels %d bits %d" % (tag, channels, bits))
    if align != 1 or byte_rate != rate:
        raise TapeError("inconsistent fmt chunk: byte rate %d, rate %d, align %d" % (byte_rate, rate, align))
    return rate, samples


def cycles(samples):
    """threshold at mid-scale and run-length encode into (high run, low run) cycles"""
    runs = []
    cur, n = None, 0
    for s in samples:
        lv = s >= 128
        if lv == cur:
            n += 1
        else:
            if cur is not None:
                runs.append((cur, n))
            cur, n = lv, 1
    if cur is not None:
        runs.append((cur, n))
    if runs and not runs[0][0]:
        runs = runs[1:]
    out = []
    for i in range(0, len(runs) - 1, 2):
        out.append((runs[i][1], runs[i + 1][1]))
    if len(runs) % 2:
        out.append((runs[-1][1], 0))
    return out


def _pilot(cyc):
    """length of the pilot: the leading run of identical cycles; returns (count, high width, low width)"""
    if not cyc:
        raise TapeError("no signal")
    h, l = cyc[0]
    n = 0
    while n < len(cyc) and cyc[n] == (h, l):
        n += 1
    if n < 64:
        raise TapeError("pilot tone of only %d cycles" % n)
    return n, h, l


def bits_to_bytes(bits):
    if len(bits) % 8:
        raise TapeError("bit count %d is not a multiple of 8" % len(bits))
    out = bytearray()
    for i in range(0, len(bits), 8):
        v = 0
        for k in range(8):
            v |= bits[i + k] << k    # least significant bit first
        out.append(v)
    return bytes(out)


class StandardStream:
    """standard BK-0010 recording: each bit is a pilot-length sync cycle followed by a data cycle (same length = 0,
    about twice as long = 1); every block starts with a long marker cycle followed by one long data cycle."""

    def __init__(self, samples):
        cyc = cycles(samples)
        n, ph, pl = _pilot(cyc)
        period = ph + pl

        def kind(c):
            t = c[0] + c[1]
            if t >= 3 * period:
                return "M"
            if 2 * t >= 3 * period:
                return "o"     # long data pulse
            return "p"
        self.syms = [kind(c) for c in cyc]
        self.i = n

    def marker(self):
        s = self.syms
        while self.i < len(s) and s[self.i] == "p":
            self.i += 1
        if self.i >= len(s) or s[self.i] != "M":
            raise TapeError("expected a sync marker at cycle %d" % self.i)
        self.i += 1
        if self.i >= len(s) or s[self.i] != "o":
            raise TapeError("sync marker not followed by the long start pulse")
        self.i += 1

    def bits(self, count):
        s = self.syms
        out = []
        for _ in range(count):
            if self.i + 1 >= len(s):
                raise TapeError("recording ends inside a block (bit %d of %d)" % (len(out), count))
            if s[self.i] != "p" or s[self.i + 1] not in "po":
                raise TapeError("malformed bit cell at cycle %d: %s%s" % (self.i, s[self.i], s[self.i + 1]))
            out.append(1 if s[self.i + 1] == "o" else 0)
            self.i += 2
        return out

    def trailer(self):
        rest = self.syms[self.i:]
        if any(x != "p" for x in rest):
            raise TapeError("unexpected long pulses after the checksum")
        return len(rest)


def demodulate_turbo(samples):
    """turbo recording: one cycle per bit, the width of the high half tells the bit (wide = 1);
    a single long marker after the pilot. Returns the bit list after the marker."""
    cyc = cycles(samples)
    n, ph, pl = _pilot(cyc)
    i = n
    if i >= len(cyc) or cyc[i][0] < 3 * ph:
        raise TapeError("pilot not followed by a sync marker")
    i += 1
    bits = []
    for (h, _l) in cyc[i:]:
        bits.append(1 if 2 * h > ph else 0)
    return bits


def checksum(data):
    """BK monitor checksum: 16-bit sum with end-around carry"""
    s = 0
    for b in data:
        s += b
        if s > 0xFFFF:
            s = (s & 0xFFFF) + 1
    return s


def decode_tape(wav_bytes, turbo):
    """returns dict(base, length, name, data, checksum_recorded) or raises TapeError"""
    rate, samples = parse_riff(wav_bytes)
    if turbo:
        bits = demodulate_turbo(samples)
        if len(bits) < 160:
            raise TapeError("turbo stream shorter than a header")
        header = bits_to_bytes(bits[:160])
        base, length = struct.unpack("<HH", header[:4])
        need = 160 + 8 * length + 16
        if len(bits) < need:
            raise TapeError("turbo stream has %d bits, header announces %d" % (len(bits), need))
        data = bits_to_bytes(bits[160:160 + 8 * length])
        ck = struct.unpack("<H", bits_to_bytes(bits[160 + 8 * length:need]))[0]
        trailer = bits[need:]
        if len(trailer) > 8:
            raise TapeError("%d unexpected cycles after the checksum" % len(trailer))
        return {"base": base, "length": length, "name": header[4:20], "data": data, "checksum": ck, "rate": rate}
    st = StandardStream(samples)
    st.marker()                 # end of the pilot tone
    st.marker()                 # start of the header block
    header = bits_to_bytes(st.bits(160))
    base, length = struct.unpack("<HH", header[:4])
    st.marker()                 # start of the data block
    body = bits_to_bytes(st.bits(8 * (length + 2)))
    st.trailer()
    return {"base": base, "length": length, "name": header[4:20], "data": body[:length], "checksum": struct.unpack("<H", body[length:])[0], "rate": rate}


# ---- known-answer vectors: a tiny independent modulator (different sample widths than pdpy11 uses) ----
def _mod_standard(base, data, name, unit=3):
    hi, lo = 220, 30

    def cyc(w):
        return bytes([hi]) * w + bytes([lo]) * w

    def bits(bs):
        out = b""
        for b in bs:
            for k in range(8):
                out += cyc(unit) + cyc(2 * unit if (b >> k) & 1 else unit)
        return out
    s = cyc(unit) * 300 + cyc(4 * unit) + cyc(2 * unit)
    s += cyc(unit) * 10 + cyc(4 * unit) + cyc(2 * unit) + bits(struct.pack("<HH16s", base, len(data), name))
    s += cyc(unit) * 10 + cyc(4 * unit) + cyc(2 * unit) + bits(data + struct.pack("<H", checksum(data)))
    s += cyc(unit) * 50
    hdr = struct.pack("<4sI4s4sIHHIIHH4sI", b"RIFF", 36 + len(s), b"WAVE", b"fmt ", 16, 1, 1, 8000, 8000, 1, 8, b"data", len(s))
    return hdr + s


def selftest():
    n = 0
    for data in (b"", b"\x01", b"\xff\x00\xaa", bytes(range(40)), b"\xff" * 300):
        wav = _mod_standard(0o1000, data, b"NAME".ljust(16))
        d = decode_tape(wav, turbo=False)
        assert (d["base"], d["length"], d["name"], d["data"]) == (0o1000, len(data), b"NAME".ljust(16), data), d
        assert d["checksum"] == checksum(data)
        n += 1
    assert checksum(b"\xff" * 257) == 0xFFFF and checksum(b"\xff" * 258) == 0x00FF and checksum(b"") == 0 and checksum(b"\x01\x02") == 3
    assert checksum(b"\xff" * 514) == 0xFFFF
    assert read_bin(b"\x00\x02\x02\x00\xa0\x00") == (0o1000, b"\xa0\x00")
    for bad in (b"\x00\x02\x03\x00\xa0\x00", b"\x00"):
        try:
            read_bin(bad)
            assert False
        except TapeError:
            pass
    assert bits_to_bytes([1, 0, 0, 0, 0, 0, 0, 0, 0, 0, 0, 0, 0, 0, 0, 1]) == b"\x01\x80"
    return n + 8
