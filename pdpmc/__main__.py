import os
import sys
import argparse


def main():
    ap = argparse.ArgumentParser(prog="pdpmc")
    ap.add_argument("prop", help="property id (C01..C19), 'selftest' or 'all'")
    ap.add_argument("--tier", default=os.environ.get("VERIF_TIER") or "quick", choices=["quick", "thorough"])
    ap.add_argument("--replay", default=None)
    a = ap.parse_args()
    seed = int(os.environ.get("VERIF_SEED", "0") or 0)
    if a.prop == "selftest":
        from .ref import selftest
        sys.exit(selftest.main())
    from . import engine
    if a.prop == "all":
        rc = 0
        for i in range(1, 20):
            name = "c%02d" % i
            if os.path.exists(os.path.join(os.path.dirname(__file__), "props", name + ".py")):
                rc = max(rc, engine.run_property(name, a.tier, seed))
        sys.exit(rc)
    sys.exit(engine.run_property(a.prop.lower(), a.tier, seed, replay=a.replay))


if __name__ == "__main__":
    main()
