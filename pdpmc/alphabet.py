"""Statement alphabet with reference layout semantics (size and bytes as a function of the address a
statement is placed at), written from the directive definitions in the README/property texts.
Used by the sequence explorers (C02, C09, C16, ...).  Every kind is chosen so that a distinct
*size path* of the implementation is exercised (fixed size, size known only after a later symbol,
address-dependent size, nested blocks, files)."""

Z = b"\x00"


def w(v):
    v &= 0xFFFF
    return bytes([v & 255, v >> 8])


def pad_to(addr, m):
    return Z * ((-addr) % m)


# extra files every program of this alphabet may refer to
TREE = {
    "f0.bin": b"",
    "f5.bin": b"\x01\x02\x03\x04\x05",
    "inc2.mac": ".byte 7\n.byte 10\n.byte 11\n",
    "incinc.mac": ".byte 1\n.include \"inc2.mac\"\n.even\n",
    "incdeep.mac": ".include \"incinc.mac\"\n.byte 2\n",
    # a chunk that is still pending when it is first met, followed by text: the block's length is a sum over mixed chunk kinds
    "incpa.mac": ".byte zq\n.ascii \"abcd\"\n.asciz \"e\"\nzq = 3\n",
}


def _even_rep(addr, n):
    out = b""
    for _ in range(n):
        out += b"\x01"
        out += pad_to(addr + len(out), 2)
    return out


def _rep3(addr):
    out = b""
    for _ in range(3):
        out += pad_to(addr + len(out), 2) + b"\x01\x02\x03"
    return out


def _rep4dot(addr):
    out = b""
    for _ in range(4):
        out += pad_to(addr + len(out), 2)
        out += w(addr + len(out)) + b"\x01"
    return out


def kinds():
    """name -> function(i) -> dict(text, exp(addr)->bytes, defs=[...], settled_only=bool)"""
    K = {}

    def fixed(name, text, data):
        K[name] = lambda i: {"text": text, "exp": (lambda addr: data), "defs": []}

    fixed("nop", "nop", w(0o240))
    fixed("mov4", "mov #1, r0", w(0o12700) + w(1))
    fixed("mov6", "mov @#2, @#4", w(0o13737) + w(2) + w(4))
    fixed("byte1", ".byte 1", b"\x01")
    fixed("byte3", ".byte 1, 2, 3", b"\x01\x02\x03")
    fixed("ascii2", ".ascii \"ab\"", b"ab")
    fixed("ascii3", ".ascii \"abc\"", b"abc")
    fixed("asciz2", ".asciz \"ab\"", b"ab\x00")
    fixed("rad50", ".rad50 \"abcd\"", w((1 * 40 + 2) * 40 + 3) + w(4 * 1600))
    fixed("blkb3", ".blkb 3", Z * 3)
    fixed("blkw2", ".blkw 2", Z * 4)
    fixed("ins0", "insert_file \"f0.bin\"", b"")
    fixed("ins5", "insert_file \"f5.bin\"", b"\x01\x02\x03\x04\x05")
    fixed("inc2", ".include \"inc2.mac\"", b"\x07\x08\x09")
    fixed("rep2nop", ".repeat 2 { nop }", w(0o240) * 2)
    fixed("label", "", b"")
    K["assign"] = lambda i: {"text": "sa%d = ." % i, "exp": (lambda addr: b""), "defs": []}
    K["blkbf"] = lambda i: {"text": ".blkb fb%d" % i, "exp": (lambda addr: Z * 3), "defs": ["fb%d = 3" % i]}
    K["blkwf"] = lambda i: {"text": ".blkw fw%d" % i, "exp": (lambda addr: Z * 2), "defs": ["fw%d = 1" % i]}
    K["even"] = lambda i: {"text": ".even", "exp": (lambda addr: pad_to(addr, 2)), "defs": []}
    K["odd"] = lambda i: {"text": ".odd", "exp": (lambda addr: pad_to(addr + 1, 2)), "defs": []}
    K["align4"] = lambda i: {"text": ".align 4", "exp": (lambda addr: pad_to(addr, 4)), "defs": []}
    K["alignf"] = lambda i: {"text": ".align fa%d" % i, "exp": (lambda addr: pad_to(addr, 4)), "defs": ["fa%d = 4" % i]}
    K["skip5"] = lambda i: {"text": ". = .+5", "exp": (lambda addr: Z * 5), "defs": [], "settled_only": True}
    K["skipf"] = lambda i: {"text": ". = .+fs%d" % i, "exp": (lambda addr: Z * 3), "defs": ["fs%d = 3" % i], "settled_only": True}
    K["repeven"] = lambda i: {"text": ".repeat 2 { .byte 1\n .even }", "exp": (lambda addr: _even_rep(addr, 2)), "defs": []}
    K["repf"] = lambda i: {"text": ".repeat fr%d { .byte 1\n .even }" % i, "exp": (lambda addr: _even_rep(addr, 2)), "defs": ["fr%d = 2" % i]}
    K["rep3even"] = lambda i: {"text": ".repeat 3 { .even\n .byte 1, 2, 3 }", "exp": _rep3, "defs": []}
    K["rep4dot"] = lambda i: {"text": ".repeat fq%d { .even\n .word .\n .byte 1 }" % i, "exp": _rep4dot, "defs": ["fq%d = 4" % i], "abs": 4}
    K["incinc"] = lambda i: {"text": ".include \"incinc.mac\"", "defs": [],
                             "exp": (lambda addr: b"\x01\x07\x08\x09" + pad_to(addr + 4, 2))}
    K["incdeep"] = lambda i: {"text": ".include \"incdeep.mac\"", "defs": [],
                              "exp": (lambda addr: b"\x01\x07\x08\x09" + pad_to(addr + 4, 2) + b"\x02")}
    # several chunks in one '.rad50': the characters of all chunks are packed together, three to a word
    K["rad2c"] = lambda i: {"text": ".rad50 /AB/<35>", "exp": (lambda addr: w((1 * 40 + 2) * 40 + 29)), "defs": []}
    K["rad2f"] = lambda i: {"text": ".rad50 /AB/<fk%d>/CD/" % i, "exp": (lambda addr: w((1 * 40 + 2) * 40 + 29) + w((3 * 40 + 4) * 40)), "defs": ["fk%d = 35" % i]}
    K["incpa"] = lambda i: {"text": ".include \"incpa.mac\"", "exp": (lambda addr: b"\x03abcde\x00"), "defs": []}
    K["reppa"] = lambda i: {"text": ".repeat 2 { .byte fz%d\n .ascii \"ab\" }" % i, "exp": (lambda addr: b"\x03ab" * 2), "defs": ["fz%d = 3" % i]}
    # file names with a <n> chunk that is only known later: the statement cannot be carried out when it is first met
    K["incf"] = lambda i: {"text": ".include \"inc\" <fc%d> \".mac\"" % i, "exp": (lambda addr: b"\x07\x08\x09"), "defs": ["fc%d = 62" % i]}
    K["insf"] = lambda i: {"text": "insert_file \"f\" <fi%d> \".bin\"" % i, "exp": (lambda addr: b"\x01\x02\x03\x04\x05"), "defs": ["fi%d = 65" % i]}
    # word data: legal only at an even address (at an odd one the program has an error and is outside C02's premise)
    K["word"] = lambda i: {"text": ".word 5", "exp": (lambda addr: w(5)), "defs": [], "needs_even": True}
    K["dword"] = lambda i: {"text": ".dword 1", "exp": (lambda addr: w(0) + w(1)), "defs": [], "needs_even": True}
    K["wlist"] = lambda i: {"text": "7, 10", "exp": (lambda addr: w(7) + w(8)), "defs": [], "needs_even": True}
    # operand-less forms: an implicit zero of the directive's width (content is not demanded by C06, the *size* is C02's business)
    K["word0"] = lambda i: {"text": ".word", "exp": (lambda addr: w(0)), "defs": [], "needs_even": True}
    K["dword0"] = lambda i: {"text": ".dword", "exp": (lambda addr: w(0) + w(0)), "defs": [], "needs_even": True}
    K["byte0"] = lambda i: {"text": ".byte", "exp": (lambda addr: Z), "defs": []}
    K["worddot"] = lambda i: {"text": ".word .", "exp": (lambda addr: w(addr)), "defs": [], "needs_even": True, "abs": 1}
    return K


KINDS = kinds()
ORDER = ["nop", "mov4", "mov6", "byte1", "byte3", "word", "dword", "wlist", "worddot", "word0", "dword0", "byte0", "ascii2", "ascii3", "asciz2", "rad50", "rad2c", "rad2f",
         "blkb3", "blkw2", "blkbf", "blkwf", "even", "odd", "align4", "alignf", "skip5", "skipf",
         "rep2nop", "repeven", "repf", "rep3even", "rep4dot", "ins0", "ins5", "inc2", "incinc", "incdeep", "incpa", "reppa", "incf", "insf", "label", "assign"]
assert set(ORDER) == set(KINDS)


def build(seq, base, link="first", labels=True, probe=True, exported=False, label_prefix="L"):
    """Program text + reference image for the statement sequence `seq` (list of kind names).
    link: 'first' (.link before), 'last' (.link after everything), 'none' (default base; base must be 0o1000).
    Returns dict(text, image or None if the premise fails (word data at odd address), label_addrs, n_abs)."""
    lines, defs = [], []
    if link == "first":
        lines.append(".link %o" % base)
    addr = base
    image = b""
    label_addrs = []
    premise = True
    for i, k in enumerate(seq):
        st = KINDS[k](i)
        if st.get("settled_only") and link != "first":
            return None
        if st.get("needs_even") and addr % 2:
            premise = False
        if labels:
            lines.append("%s%d%s" % (label_prefix, i, "::" if exported else ":"))
            label_addrs.append(addr)
        if st["text"]:
            lines.append(st["text"])
        data = st["exp"](addr)
        image += data
        addr += len(data)
        defs += st["defs"]
    if labels:
        lines.append("%s%d%s" % (label_prefix, len(seq), "::" if exported else ":"))
        label_addrs.append(addr)
    if probe and labels:
        lines.append(".even")
        p = pad_to(addr, 2)
        image += p
        addr += len(p)
        lines.append(".word " + ", ".join("%s%d" % (label_prefix, i) for i in range(len(label_addrs))))
        for a in label_addrs:
            if a > 0xFFFF:
                premise = False
            image += w(a)
        addr += 2 * len(label_addrs)
    lines += defs
    if link == "last":
        lines.append(".link %o" % base)
    return {"text": "\n".join(lines) + "\n", "image": image if premise else None, "label_addrs": label_addrs, "end": addr}
