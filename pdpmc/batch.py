"""Batched evaluation of independent statements with automatic bisection, so that
batching never hides which case failed and never masks a case behind another."""
from . import driver

# Where the batched program stands.  "plain": it is the one source file.  In the thorough tier every batch is assembled
# twice more: as the body of a file included from a main file that holds nothing else, and as the second of two linked files
# after a first file that holds only a comment.  The statements, and therefore the expected image, are the same.
CONTEXTS = ("plain",)


def set_tier(tier):
    global CONTEXTS
    CONTEXTS = ("plain", "included", "second-file") if tier == "thorough" else ("plain",)


def files_for(context, text):
    """(files, extra tree entries) that put the program text into the given context"""
    if context == "included":
        return [("main.mac", "\t.include \"sub/b.mac\"\n")], {"sub/b.mac": text}
    if context == "second-file":
        return [("first.mac", "; nothing here\n"), ("b.mac", text)], {}
    return [("b.mac", text)], {}


def run_valid_batch(items, r, pid, prefix="", suffix="", charset="bk", base=None, tree=None, describe=None,
                    prefix_bytes=b"", suffix_bytes=b"", start=None):
    """items: list of (key, statement text, expected bytes or callable(address) -> bytes).  All statements are
    expected to assemble without error to exactly their expected bytes.  prefix/suffix are fixed program text
    around the statements producing prefix_bytes/suffix_bytes; start = address of the first byte of the image."""
    r.extra["assembler_runs"] += 0
    ctx = (prefix_bytes, suffix_bytes, start if start is not None else (base if base is not None else 0o1000))
    for context in CONTEXTS:
        its = items
        if context == "included":
            # an included file is read from disk in text mode (universal newlines), the main file of the driver is handed over
            # as a string: a raw carriage return inside a statement is a different input there, so such statements stay out
            its = [it for it in items if "\r" not in it[1]]
            if not its or "\r" in prefix + suffix:
                continue
        _bisect(its, r, pid, prefix, suffix, charset, base, tree, describe, ctx, context)


def expected_of(items, ctx):
    pre, suf, start = ctx
    addr = start + len(pre)
    parts = []
    for it in items:
        e = it[2](addr) if callable(it[2]) else it[2]
        parts.append(e)
        addr += len(e)
    return pre + b"".join(parts) + suf, parts


def _bisect(items, r, pid, prefix, suffix, charset, base, tree, describe, ctx=(b"", b"", 0o1000), context="plain"):
    text = prefix + "".join(it[1] + "\n" for it in items) + suffix
    files, more = files_for(context, text)
    if more:
        tree = dict(tree or {}, **more)
    out = driver.assemble(files, charset=charset, tree=tree)
    r.extra["assembler_runs"] += 1
    want, parts = expected_of(items, ctx)
    good = out.status == "ok" and out.code == want and (base is None or out.base == base)
    if good:
        for it in items:
            r.ran("ok", key=it[0] if context == "plain" else (context, it[0]))
        return
    if len(items) == 1:
        it = items[0]
        r.ran(out.cls(), key=it[0] if context == "plain" else (context, it[0]))
        sig, what = classify_mismatch(out, want)
        if context != "plain":
            sig += ":" + context
        d = describe(it) if describe else {}
        c = {"kind": "single", "key": it[0], "text": text, "charset": charset, "expected_hex": want.hex(), "context": context}
        if tree:
            c["tree"] = {k: (v if isinstance(v, str) else {"hex": v.hex()}) for k, v in tree.items()}
        r.violation(sig + (":" + d["family"] if d.get("family") else ""), what, c,
                    expected={"status": "ok", "bytes": want.hex() if len(want) < 200 else want[:200].hex() + "..."}, observed=out.brief())
        return
    mid = len(items) // 2
    _bisect(items[:mid], r, pid, prefix, suffix, charset, base, tree, describe, ctx, context)
    _bisect(items[mid:], r, pid, prefix, suffix, charset, base, tree, describe, ctx, context)


def classify_mismatch(out, want):
    if out.status == "ok":
        if len(out.code) != len(want):
            return "wrong-size", "assembled without error but produced %d bytes where %d are expected" % (len(out.code), len(want))
        return "wrong-bytes", "assembled without error but the bytes differ from the reference"
    if out.status == "crash":
        return "crash:%s@%s" % (out.exc, out.site), "internal exception %s at %s" % (out.exc, out.site)
    if out.status == "fail":
        return "rejected:" + ",".join(sorted(set(out.error_kinds()))), "a legal input was rejected with errors %s" % out.error_kinds()
    return out.status, "outcome %s" % out.status


def expect_error(text, r, key, case, charset="bk", tree=None, files=None):
    """The program must fail with at least one error diagnostic (never ok/crash/hang)."""
    out = driver.assemble(files or [("e.mac", text)], charset=charset, tree=tree)
    r.ran(out.cls(), key=key)
    if out.status != "fail":
        if out.status == "ok":
            sig, what = "accepted", "an input that must be refused assembled without any error"
        elif out.status == "crash":
            sig, what = "crash:%s@%s" % (out.exc, out.site), "internal exception instead of a diagnostic"
        else:
            sig, what = out.status, "outcome %s instead of a reported error" % out.status
        r.violation(sig, what, case, expected={"status": "fail"}, observed=out.brief())
    return out


def replay_single(case, r):
    """Re-check one statement that bisection singled out (used by --replay and shrinking)."""
    want = bytes.fromhex(case["expected_hex"])
    files, more = files_for(case.get("context", "plain"), case["text"])
    tree = _untree(case.get("tree"))
    if more:
        tree = dict(tree or {}, **{k: v for k, v in more.items() if k not in (tree or {})})
    out = driver.assemble(files, charset=case.get("charset", "bk"), tree=tree)
    r.ran(out.cls(), key=case.get("key"))
    if not (out.status == "ok" and out.code == want):
        sig, what = classify_mismatch(out, want)
        r.violation(sig, what, case, expected={"status": "ok", "bytes": want.hex()}, observed=out.brief())


def _untree(tree):
    if not tree:
        return None
    return {k: (bytes.fromhex(v["hex"]) if isinstance(v, dict) else v) for k, v in tree.items()}


def replay_error(case, r):
    expect_error(case["text"], r, case.get("key"), case, charset=case.get("charset", "bk"), tree=_untree(case.get("tree")))
