"""Batched evaluation of independent statements with automatic bisection, so that
batching never hides which case failed and never masks a case behind another."""
from . import driver


def run_valid_batch(items, r, pid, prefix="", suffix="", charset="bk", base=None, tree=None, describe=None):
    """items: list of (key, statement text, expected bytes).  All statements are
    expected to assemble without error to exactly their expected bytes."""
    r.extra["assembler_runs"] += 0
    _bisect(items, r, pid, prefix, suffix, charset, base, tree, describe)


def _bisect(items, r, pid, prefix, suffix, charset, base, tree, describe):
    text = prefix + "".join(it[1] + "\n" for it in items) + suffix
    out = driver.assemble([("b.mac", text)], charset=charset, tree=tree)
    r.extra["assembler_runs"] += 1
    want = b"".join(it[2] for it in items)
    good = out.status == "ok" and out.code == want and (base is None or out.base == base)
    if good:
        for it in items:
            r.ran("ok", key=it[0])
        return
    if len(items) == 1:
        it = items[0]
        r.ran(out.cls(), key=it[0])
        sig, what = classify_mismatch(out, it[2])
        d = describe(it) if describe else {}
        r.violation(sig + (":" + d["family"] if d.get("family") else ""), what,
                    {"kind": "single", "key": it[0], "text": prefix + it[1] + "\n" + suffix, "charset": charset,
                     "expected_hex": it[2].hex()},
                    expected={"status": "ok", "bytes": it[2].hex()}, observed=out.brief())
        return
    mid = len(items) // 2
    _bisect(items[:mid], r, pid, prefix, suffix, charset, base, tree, describe)
    _bisect(items[mid:], r, pid, prefix, suffix, charset, base, tree, describe)


def classify_mismatch(out, want):
    if out.status == "ok":
        if len(out.code) != len(want):
            return "wrong-size", "assembled without error but produced %d bytes where %d are expected" % (len(out.code), len(want))
        return "wrong-bytes", "assembled without error but the bytes differ from the reference"
    if out.status == "crash":
        return "crash:%s@%s" % (out.exc, out.site), "internal exception %s at %s" % (out.exc, out.site)
    if out.status == "fail":
        return "rejected:" + ",".join(sorted(set(out.error_kinds()))), "a legal input was rejected with errors %s" % out.error_kinds()
    return out.status, "outcome %s" % out.status


def expect_error(text, r, key, case, charset="bk", tree=None, files=None):
    """The program must fail with at least one error diagnostic (never ok/crash/hang)."""
    out = driver.assemble(files or [("e.mac", text)], charset=charset, tree=tree)
    r.ran(out.cls(), key=key)
    if out.status != "fail":
        if out.status == "ok":
            sig, what = "accepted", "an input that must be refused assembled without any error"
        elif out.status == "crash":
            sig, what = "crash:%s@%s" % (out.exc, out.site), "internal exception instead of a diagnostic"
        else:
            sig, what = out.status, "outcome %s instead of a reported error" % out.status
        r.violation(sig, what, case, expected={"status": "fail"}, observed=out.brief())
    return out


def replay_single(case, r):
    """Re-check one statement that bisection singled out (used by --replay and shrinking)."""
    want = bytes.fromhex(case["expected_hex"])
    out = driver.assemble([("b.mac", case["text"])], charset=case.get("charset", "bk"), tree=case.get("tree"))
    r.ran(out.cls(), key=case.get("key"))
    if not (out.status == "ok" and out.code == want):
        sig, what = classify_mismatch(out, want)
        r.violation(sig, what, case, expected={"status": "ok", "bytes": want.hex()}, observed=out.brief())


def replay_error(case, r):
    expect_error(case["text"], r, case.get("key"), case, charset=case.get("charset", "bk"), tree=case.get("tree"))
