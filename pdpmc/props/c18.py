"""C18 Assembly is a pure function of its inputs — E3 state-graph search + E4 abort points + hash seeds.
The exploration itself lives in pdpmc/c18_explorer.py and runs in fresh interpreters (pristine import-time state)."""
import os
import sys
import json
import shutil
import subprocess
import tempfile
from .. import driver

ID = "C18"
LEVEL = "model_checking"
EXHAUSTIVE = True
CHUNK = 1
CASE_TIMEOUT = 1800
RULE = ("explicit-state search over process states: a state is the canonical fingerprint of every attribute of every loaded pdpy11 module, "
        "class and module-level instance (nesting-depth counter, awaiting stack, handler stack, per-class tables; Deferred.next_instance_id "
        "and the monotonic Progress.epoch clock normalised away); events = 51 assemblies (listings in which several names share a value, valid, forward references and deferred sizes, operator caches inside .repeat, warnings, "
        "errors of every phase, caught and reported cycles, formerly crashing inputs, multi-file, include, .once, other charset, command-"
        "line runs writing files, nested caret brackets, names of metacommands used as ordinary names, character literals in main and "
        "included files under three charsets, exports followed by private names of the same spelling, many local-label regions, normal "
        "and turbo tapes, and 6 abort points where the report handler raises at the j-th report). Breadth-first from the import-"
        "time state with fork() (a forked child is an exact copy of the interpreter): every event is applied in every newly found state "
        "until the graph closes; in every state every event's result (status, base, bytes, files, diagnostics by severity, kind, "
        "position) must equal its result in a pristine process. Independently of the fingerprint: every ordered pair (thorough: triple) "
        "of events, and two Eulerian histories that contain every ordered pair, checked after every step; the whole event "
        "set under PYTHONHASHSEED 0..7 (thorough 0..63 and random) in fresh processes; command-line events re-run as real 'python -m "
        "pdpy11' processes. states/transitions are those of the state graph; non-trivial = distinct (history, event)")
ASSUMPTIONS = ["hanging programs are not events (a run that never ends has no 'after'); since the repairs none of the catalogue inputs hangs",
               "fork() copies the interpreter state exactly; file system state is rebuilt before every event"]


def bound(tier):
    return "state graph closed (all events in all reachable states); all %s of %d events; 2 Eulerian histories; hash seeds %s" % (
        "ordered triples" if tier == "thorough" else "ordered pairs", n_events(), "0..63 + random" if tier == "thorough" else "0..7")


def n_events():
    from .. import c18_explorer
    return len(c18_explorer.EVENTS)


def names():
    from .. import c18_explorer
    return [e[0] for e in c18_explorer.EVENTS]


def cases(tier):
    yield {"k": "bfs"}
    n = n_events()
    for a in range(n):
        yield {"k": "pairs", "firsts": [a]}
    if tier == "thorough":
        for a in range(n):
            yield {"k": "triples", "a": a}
    yield {"k": "long", "variant": 0}
    yield {"k": "long", "variant": 1}
    seeds = list(range(64)) + ["random"] if tier == "thorough" else list(range(8))
    for i in range(0, len(seeds), 4):
        yield {"k": "seeds", "seeds": seeds[i:i + 4]}
    yield {"k": "fresh-cli"}
    yield {"k": "locale"}


def explorer(mode, arg=None, seed="0"):
    env = dict(os.environ)
    env["PYTHONHASHSEED"] = str(seed)
    env["PDPY11_VERIF"] = "1"
    # the explorer's scratch directory lives inside this run's scratch root, which the engine removes at the end
    scratch = tempfile.mkdtemp(prefix="c18-", dir=os.environ.get("PDPMC_SCRATCH_ROOT") or ("/dev/shm" if os.path.isdir("/dev/shm") else None))
    env["PDPMC_C18_SCRATCH"] = scratch
    env.pop("PDPMC_SCRATCH_ROOT", None)
    cmd = [sys.executable, "-m", "pdpmc.c18_explorer", mode] + ([json.dumps(arg)] if arg is not None else [])
    try:
        p = subprocess.run(cmd, cwd=os.path.dirname(os.path.dirname(os.path.dirname(os.path.abspath(__file__)))), env=env,
                           stdout=subprocess.PIPE, stderr=subprocess.PIPE, timeout=1700)
    finally:
        shutil.rmtree(scratch, ignore_errors=True)
    if p.returncode != 0:
        raise RuntimeError("explorer failed: %s" % p.stderr.decode()[-1500:])
    return json.loads(p.stdout.decode())


def euler(n, variant):
    """a closed walk over the complete digraph with self-loops on n vertices that uses every ordered pair exactly once (Hierholzer)"""
    order = list(range(n)) if variant == 0 else list(range(n - 1, -1, -1))
    nxt = {v: list(order) for v in range(n)}
    stack, path = [order[0]], []
    while stack:
        v = stack[-1]
        if nxt[v]:
            stack.append(nxt[v].pop())
        else:
            path.append(stack.pop())
    return path[::-1]


def report(r, res, case, nm):
    for d in res.get("diffs", []):
        hist = d.get("history", [])
        ev = d.get("event")
        if "error" in d:
            r.violation("explorer-error", str(d["error"])[:300], case)
            continue
        exp, obs = d["expected"], d["observed"]
        what = "status" if exp.get("status") != obs.get("status") or exp.get("exit") != obs.get("exit") else (
            "bytes" if exp.get("bytes") != obs.get("bytes") or exp.get("files") != obs.get("files") else "diagnostics")
        sig = "history-dependent:%s:%s:after-%s" % (what, nm[ev], nm[hist[-1]] if hist else "nothing")
        r.violation(sig, "event %s gives a different result after the history %s than in a pristine process" % (nm[ev], [nm[h] for h in hist[-6:]]),
                    {"k": "seq", "seq": hist + [ev]}, {k: v for k, v in exp.items() if k != "stdout"}, {k: v for k, v in obs.items() if k != "stdout"})


def check(case, r, tier):
    k = case["k"]
    nm = names()
    if k == "bfs":
        res = explorer("bfs", 50)
        if "explorer_error" in res:
            r.violation("explorer-error", str(res)[:400], case)
            return
        r.states += res["states"]
        r.trans += res["transitions"]
        r.ran("state-graph", key=("bfs", res["states"]), n=res["transitions"])
        r.extra["state_graph_states"] += res["states"]
        r.extra["state_graph_closed"] += 1 if res["closed"] else 0
        for h in res["state_histories"]:
            r.ran("state", key=("state", tuple(h)), n=0)
        if not res["closed"]:
            r.violation("state-graph-not-closed", "the process-state graph does not close within depth 50: %d states" % res["states"], case, None, res["state_histories"][-3:])
        report(r, res, case, nm)
        return
    if k == "pairs":
        res = explorer("pairs", case["firsts"])
        r.ran("pairs", key=("pairs", tuple(case["firsts"])), n=res["checked"])
        for b in range(len(nm)):
            r.ran("pair", key=("pair", case["firsts"][0], b), n=0)
        r.trans += res["checked"]
        report(r, res, case, nm)
        return
    if k == "triples":
        res = explorer("triples", case["a"])
        r.ran("triples", key=("triples", case["a"]), n=res["checked"])
        r.trans += res["checked"]
        report(r, res, case, nm)
        return
    if k == "long":
        seq = euler(len(nm), case["variant"])
        res = explorer("seq", seq)
        r.ran("long-history", key=("long", case["variant"]), n=res["checked"])
        r.trans += res["checked"]
        report(r, res, case, nm)
        return
    if k == "seq":
        res = explorer("seq", case["seq"])
        r.ran("history", key=None, n=res["checked"])
        report(r, res, case, nm)
        return
    if k == "seeds":
        ref = explorer("ref", seed=0)
        for s in case["seeds"]:
            got = explorer("ref", seed=s)
            r.ran("seed", key=("seed", s), n=len(got))
            for i, (a, b) in enumerate(zip(ref, got)):
                if a != b:
                    r.violation("hash-seed-dependent:%s" % nm[i], "event %s gives a different result under PYTHONHASHSEED=%s than under 0" % (nm[i], s),
                                {"k": "seeds", "seeds": [s]}, {kk: v for kk, v in a.items() if kk != "stdout"}, {kk: v for kk, v in b.items() if kk != "stdout"})
        return
    if k == "locale":
        # the process locale is not an input: sources are UTF-8 and the result is the same under a UTF-8 locale and under LC_ALL=C
        progs = [
            ("include-cyrillic", ["main.mac", "-o", "o.bin", "--charset", "koi8-r"], {"main.mac": "\tnop\n\t.include \"inc.mac\"\n", "inc.mac": "; \u043a\u043e\u043c\u043c\u0435\u043d\u0442\u0430\u0440\u0438\u0439\n\t.ascii \"\u044f\"\n\t.even\n"}),
            ("include-cyrillic-error", ["main.mac", "-o", "o.bin", "--report-format", "bare"], {"main.mac": "\tnop\n\t.include \"inc.mac\"\n", "inc.mac": "; \u0449\u0438\n\t.ascii \"\u0449\u0438\"\t; \u0449\n\t.word undef1\n"}),
            ("main-cyrillic", ["main.mac", "-o", "o.bin", "--charset", "koi8-r", "--lst"], {"main.mac": "lab:\t.ascii \"\u044f\"\t; \u044f\n\t.even\n"}),
            ("listing-cyrillic-path", ["\u0438\u0433\u0440\u0430/prog.mac", "-o", "out.bin", "--lst"], {"\u0438\u0433\u0440\u0430/prog.mac": "start:\tnop\nk = 5\n"}),
            ("ascii-control", ["main.mac", "-o", "o.bin", "--lst"], {"main.mac": "start:\tnop\n"}),
        ]
        envs = {"utf8": {"LC_ALL": "C.UTF-8", "LANG": "C.UTF-8", "PYTHONUTF8": "0", "PYTHONCOERCECLOCALE": "0", "PYTHONIOENCODING": ""},
                "c": {"LC_ALL": "C", "LANG": "C", "PYTHONUTF8": "0", "PYTHONCOERCECLOCALE": "0", "PYTHONIOENCODING": ""},
                "latin1": {"LC_ALL": "C", "LANG": "C", "PYTHONUTF8": "0", "PYTHONCOERCECLOCALE": "0", "PYTHONIOENCODING": "latin-1"}}
        for name, argv, tree in progs:
            res = {}
            for en, env in envs.items():
                root2 = tempfile.mkdtemp(prefix="pdpmc-loc-", dir=os.environ.get("PDPMC_SCRATCH_ROOT"))
                try:
                    driver.write_tree(root2, tree)
                    before = driver.snapshot(root2)
                    rc, so, se = driver.fresh_process(argv, root2, env={k2: v for k2, v in env.items() if v != ""})
                    after = driver.snapshot(root2)
                    files = {}
                    for pth in after:
                        if pth not in before or after[pth] != before[pth]:
                            files[pth] = driver.read_file(root2, pth).replace(root2.encode(), b"<root>")
                    internal = "unexpected internal compiler error" in se
                    res[en] = (rc, files, internal)
                    r.ran("locale-%s-exit-%s" % (en, rc), key=("locale", name, en))
                    if internal:
                        r.violation("locale:internal-error:%s" % name, "internal compiler error under locale setting %s" % en, {"k": "locale"}, None, se[-400:])
                finally:
                    shutil.rmtree(root2, ignore_errors=True)
            if len(set(repr(v[:2]) for v in res.values())) > 1:
                r.violation("locale-dependent:%s" % name, "exit status or files written differ between a UTF-8 locale and LC_ALL=C", {"k": "locale"},
                            repr(res["utf8"][:2])[:300], repr({k2: v[:2] for k2, v in res.items() if k2 != "utf8"})[:300])
        return
    if k == "fresh-cli":
        # the in-process command-line driver against real processes (python -m pdpy11), for every command-line event
        from .. import c18_explorer as X
        for name, kind, payload in X.EVENTS:
            if kind != "cli":
                continue
            argv, tree = payload
            full = dict(X.TREE)
            full.update(tree)
            inproc = driver.cli(argv, full, keep=True)
            root2 = tempfile.mkdtemp(prefix="pdpmc-fresh-", dir=os.environ.get("PDPMC_SCRATCH_ROOT"))
            try:
                driver.write_tree(root2, full)
                before = driver.snapshot(root2)
                rc, so, se = driver.fresh_process(argv, root2)
                after = driver.snapshot(root2)
                files_fresh = {p: after[p][:2] for p in after if p not in before or after[p] != before[p]}
                files_in = {p: inproc.after[p][:2] for p in inproc.after if p not in inproc.before or inproc.after[p] != inproc.before[p]}
                # listings contain absolute paths: compare them by normalised content
                def normalise(root, files):
                    out = {}
                    for p, v in files.items():
                        if p.endswith(".lst"):
                            out[p] = driver.read_file(root, p).replace(root.encode(), b"<root>")
                        else:
                            out[p] = v
                    return out
                a = (inproc.exit, normalise(inproc.root, files_in))
                b = (rc, normalise(root2, files_fresh))
                r.ran("fresh-cli", key=("fresh", name))
                if a != b:
                    r.violation("inprocess-vs-fresh:%s" % name, "the in-process command-line run differs from a real 'python -m pdpy11' process", {"k": "fresh-cli"}, repr(b)[:300], repr(a)[:300])
            finally:
                shutil.rmtree(root2, ignore_errors=True)
                shutil.rmtree(inproc.root, ignore_errors=True)
        return
