"""C14 The BK charset is a bijection consistent with ASCII and KOI-8 — E1, fully exhaustive."""
import itertools
from .. import batch, driver
from ..ref import charset as ref

ID = "C14"
LEVEL = "exploration"
EXHAUSTIVE = True
CHUNK = 2
RULE = ("complete enumeration: all 256 byte values (decode, encode, injectivity, ASCII/KOI8-R agreement), every code point "
        "0..0x10FFFF through str.encode('bk') (table members give their byte, all others raise UnicodeEncodeError with start at "
        "their index), every {encodable,unencodable} pattern of length <= 4 with 3 representatives per class, and at assembly level "
        "'.ascii', '.asciz', 'c and \"cc for each of the 256 table characters (batched, bisected) and '.ascii' / 'c for every BMP "
        "code point outside the table (run alone; must fail with an error); '<n>' chunks of '.ascii'/'.asciz' for every byte n are the byte itself (not a character put through the table), and '<cp>' for table members above 255 is refused; 5 characters x 5 programs (literal / string, in the main file and in "
        "an included file) assembled three times in one process under every ordered pair of 4 output charsets; non-trivial = distinct (code point or byte, route) pair")
ASSUMPTIONS = ["Python's koi8_r codec is the independent KOI8-R source", "pseudo-graphics block 0x7F-0xBF is only required to be a bijection",
               "U+00A4 (currency sign) is accepted as a second spelling of byte 0x24: the implementation's table lists both glyphs for that byte on purpose (the BK-0010 shows the currency sign where ASCII has '$'); the bijection is demanded of the 256 primary characters"]


# the same sources assembled again in one process under another (or the same) output charset: refusal and bytes depend on the
# charset of *this* run only
HISTORY_CHARS = ["\u0451", "\u044f", "\u2500", "\u00e9", "Z"]
HISTORY_CHARSETS = ["bk", "koi8-r", "cp1251", "utf-8"]


def bound(tier):
    return "complete: 256 bytes, 1114112 code points, 30 patterns x 27 fillings, 65536 BMP code points at assembly level"


def table():
    import codecs
    codecs.lookup("bk")
    return [bytes([b]).decode("bk") for b in range(256)]


def cases(tier):
    yield {"k": "table"}
    step = 0x2000
    for lo in range(0, 0x110000, step):
        yield {"k": "cp", "lo": lo, "hi": lo + step}
    yield {"k": "pattern"}
    for lo in range(0, 256, 32):
        yield {"k": "asm-good", "lo": lo, "hi": lo + 32}
    for lo in range(0, 0x10000, 128):
        yield {"k": "asm-bad", "lo": lo, "hi": lo + 128}
    for ch in HISTORY_CHARS:
        yield {"k": "history", "ch": ch}


def check(case, r, tier):
    k = case.get("k") or case.get("kind")
    if k == "single":
        return batch.replay_single(case, r)
    if k == "error":
        return batch.replay_error(case, r)
    T = table()
    members = {}
    if k == "history":
        import shutil
        ch = case["ch"]

        def enc(cs):
            if cs == "bk":
                return bytes([T.index(ch)]) if ch in T else None
            try:
                return ch.encode(cs)
            except UnicodeEncodeError:
                return None
        progs = {"lit-main": ("\t.byte '%s\n" % ch, "lit"), "lit-inc": ("\t.include \"h1.mac\"\n", "lit"), "ascii-main": ("\t.ascii /%s/\n" % ch, "str"), "ascii-inc": ("\t.include \"h2.mac\"\n", "str"),
                 "word-inc": ("\t.include \"h3.mac\"\n", "word")}
        tree = {"h1.mac": "\t.byte '%s\n" % ch, "h2.mac": "\t.ascii /%s/\n" % ch, "h3.mac": "\tmov #'%s, r0\n" % ch}
        for pname, (text, kind) in progs.items():
            for seq in itertools.product(HISTORY_CHARSETS, repeat=2):
                root = driver.prepare_tree(tree)
                try:
                    for step, cs in enumerate(seq + (seq[0],)):
                        e = enc(cs)
                        if kind == "str":
                            want = e
                        elif kind == "lit":
                            want = e if e is not None and len(e) == 1 else None
                        else:
                            want = None if e is None or len(e) > 2 else b"\xc0\x15" + e.ljust(2, b"\x00")
                        out = driver.assemble([("m.mac", text)], charset=cs, root=root)
                        good = (out.status == "fail") if want is None else (out.status == "ok" and out.code == want)
                        r.ran(out.cls(), key=("history", ch, pname, seq, step))
                        if not good:
                            r.violation("history:%s:%s" % (pname, "accepted" if want is None and out.status == "ok" else ("wrong-bytes" if out.status == "ok" else out.cls())),
                                        "%s under charset %s as run %d of the sequence %s in one process: %s" % (pname, cs, step + 1, list(seq + (seq[0],)), "must be refused" if want is None else "must give " + want.hex()),
                                        {"k": "history", "ch": ch}, "error" if want is None else want.hex(), out.brief())
                            break
                finally:
                    shutil.rmtree(root, ignore_errors=True)
        return
    if k == "table":
        seen = {}
        for b in range(256):
            ch = T[b]
            cls = "ok"
            if len(ch) != 1:
                cls = "bad"
                r.violation("decode-not-one-char", "byte decodes to %r" % ch, {"k": "table", "byte": b}, "one character", ch)
            elif ch in seen:
                cls = "bad"
                r.violation("decode-not-injective", "bytes %#x and %#x decode to the same character" % (seen[ch], b), {"k": "table", "byte": b}, None, ch)
            seen.setdefault(ch, b)
            try:
                back = ch.encode("bk")
            except UnicodeEncodeError as ex:
                back = repr(ex)
            if back != bytes([b]):
                cls = "bad"
                r.violation("roundtrip", "decode then encode of byte %#x gives %r" % (b, back), {"k": "table", "byte": b}, bytes([b]).hex(), repr(back))
            want = ref.expected_char(b)
            if want is not None and ch != want:
                cls = "bad"
                r.violation("table-entry", "byte %#x decodes to %r, %s says %r" % (b, ch, "ASCII" if b < 0x7F else "KOI8-R", want), {"k": "table", "byte": b}, want, ch)
            r.ran(cls, key=("byte", b))
        # whole-string round trip, both directions
        allb = bytes(range(256))
        if allb.decode("bk").encode("bk") != allb:
            r.violation("roundtrip", "round trip of the 256-byte string fails", {"k": "table"}, None, None)
        r.ran("ok", key="all-bytes")
        return
    for b in range(256):
        members[T[b]] = b
    if k == "cp":
        for cp in range(case["lo"], case["hi"]):
            ch = chr(cp)
            pre = "A" if cp % 3 else ""
            s = pre + ch + ("z" if cp % 2 else "")
            try:
                got = s.encode("bk")
                res = ("bytes", got)
            except UnicodeEncodeError as ex:
                res = ("error", ex.start, ex.end, ex.encoding)
            except Exception as ex:  # any other exception is not an encoding error
                res = ("other", type(ex).__name__)
            if ch in members or ch == "¤":
                b = members.get(ch, 0x24)
                want = ("bytes", (b"A" if pre else b"") + bytes([b]) + (b"z" if cp % 2 else b""))
                cls = "encodable"
            else:
                want = ("error", len(pre))
                cls = "refused"
            good = res[:2] == want[:2]
            if good and want[0] == "error":
                good = res[2] > res[1]
            r.ran(cls if good else "bad", key=("cp", cp), nontrivial=True)
            if not good:
                sig = "encode-accepts-foreign" if (want[0] == "error" and res[0] == "bytes") else ("encode-error-position" if want[0] == "error" and res[0] == "error" else "encode-wrong")
                r.violation(sig, "U+%04X inside %r" % (cp, s), {"k": "cp", "lo": cp, "hi": cp + 1}, repr(want), repr(res))
        return
    if k == "pattern":
        enc_reps = ["a", "я", "\x00"]
        bad_reps = ["é", "✓", "\U0001F600"]
        for n in range(1, 5):
            for pat in itertools.product("eu", repeat=n):
                if "u" not in pat:
                    continue
                for ei, ui in itertools.product(range(3), range(3)):
                    s = "".join(enc_reps[(ei + i) % 3] if p == "e" else bad_reps[(ui + i) % 3] for i, p in enumerate(pat))
                    first = pat.index("u")
                    last = n - 1 - pat[::-1].index("u")
                    try:
                        got = ("bytes", s.encode("bk"))
                    except UnicodeEncodeError as ex:
                        got = ("error", ex.start, ex.end)
                    except Exception as ex:
                        got = ("other", type(ex).__name__)
                    good = got[0] == "error" and got[1] == first and first < got[2] <= n and got[2] >= last + 1
                    r.ran("refused" if good else "bad", key=("pat", s))
                    if not good:
                        r.violation("encode-error-position", "pattern %s string %r" % ("".join(pat), s), {"k": "pattern"}, ("error", first, last + 1), got)
        return
    if k == "asm-good":
        items = []
        for b in range(case["lo"], case["hi"]):
            ch = T[b]
            esc = {"\\": "\\\\", "\n": "\\n", "\r": "\\r", "\t": "\\t"}.get(ch, ch)
            q = '"' if ch == "/" else "/"
            inq = esc if ch != q else "\\" + ch
            items.append((("ascii", b), ".ascii %s%s%s" % (q, inq, q), bytes([b])))
            items.append((("asciz", b), ".asciz %sx%sy%s" % (q, inq, q), b"x" + bytes([b]) + b"y\x00"))
            items.append((("ascii-raw-nl", b), ".ascii %s%s%s" % (q, ch if ch not in "\\" + q else inq, q), bytes([b])))
            cesc = esc if ch != "'" else "\\'"
            if ch == " ":
                pass
            items.append((("char", b), ".word '%s" % cesc, bytes([b, 0])))
            desc = esc if ch != '"' else '\\"'
            items.append((("char2", b), '.word "%sA' % desc, bytes([b, 0x41])))
            items.append((("char2b", b), '.word "A%s' % desc, bytes([0x41, b])))
            items.append((("imm", b), "mov #'%s, r0" % cesc, bytes([0xC0, 0x15, b, 0])))
            # a '<n>' chunk is the byte n itself - it does not go through the charset (U+00A4 is an alias of '$', chr(n) of a
            # Cyrillic byte is a Latin-1 letter that is not in the table)
            items.append((("raw-code", b), ".ascii <%o>" % b, bytes([b])))
            items.append((("raw-code-mid", b), ".asciz /x/<%d.>%s%s%s" % (b, q, inq, q), b"x" + bytes([b, b]) + b"\x00"))
        batch.run_valid_batch(items, r, ID)
        if case["lo"] == 0:
            # '<n>' with the code point of a table member above 255 is not a byte
            for b in range(256):
                cp = ord(T[b])
                if cp > 255:
                    for text in (".ascii <%d.>\n" % cp, ".ascii /a/<%d.>\n" % cp):
                        batch.expect_error(text, r, ("raw-code-bad", cp, text), {"kind": "error", "text": text})
        return
    if k == "asm-bad":
        for cp in range(case["lo"], case["hi"]):
            ch = chr(cp)
            if ch in members or ch == "¤":
                continue
            forms = [".ascii /a%sb/\n" % ch]
            if cp % 8 == 3 or cp < 0x500:
                # the same with a chunk that cannot be evaluated yet: the refusal must survive the abandoned first attempt
                forms.append(".ascii /a%sb/<lf>\nlf = 12\n" % ch)
            if cp % 4 == 0:
                forms.append(".word '%s\n" % ch)
            if cp % 64 == 1:
                forms.append(".asciz \"%s\"\n" % ch)
                forms.append('.word "a%s\n' % ch)
                forms.append("mov #'%s, r0\n" % ch)
            for text in forms:
                batch.expect_error(text, r, ("asm-bad", text), {"kind": "error", "text": text})
        return
