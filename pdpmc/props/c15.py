"""C15 Radix-50 packing — E1, fully exhaustive in both tiers."""
import itertools
from .. import batch
from .. import driver as _driver
from ..ref import rad50 as ref

ID = "C15"
LEVEL = "exploration"
EXHAUSTIVE = True
CHUNK = 4
RULE = ("complete enumeration: all 64000 triples over the 40-character alphabet through '.rad50 /abc/' (upper and lower case), "
        "all space-free 1-3 character '^R' literals (both cases), strings of every length 0-12 at 40 alphabet offsets, <n> codes -1..64 "
        "alone and between strings, all 125 triples of different codes in one directive (also between strings and through later symbols), "
        "negated '^R' literals, every non-alphabet ASCII character, every non-ASCII character related to the alphabet by a case mapping "
        "and every code point up to U+24FF (thorough: U+1FFFF); statements are assembled 500 per program with bisection on "
        "any deviation; a case is non-trivial when it is a distinct (statement, expected words) pair; error cases run alone")
ASSUMPTIONS = ["reference unpacker pdpmc/ref/rad50.py (DEC RADIX-50 definition, known-answer vectors in selftest)"]
A = ref.ALPHABET
B = 500


def bound(tier):
    return "complete: 64000 triples x 2 cases, 60879 ^R prefixes x 2 cases, lengths 0-12, codes -1..64, 128 ASCII characters"


def words(s):
    s = s.upper()
    while len(s) % 3:
        s += " "
    out = b""
    for i in range(0, len(s), 3):
        w = (A.index(s[i]) * 40 + A.index(s[i + 1])) * 40 + A.index(s[i + 2])
        out += bytes([w & 255, w >> 8])
    return out


def cases(tier):
    trip = ["".join(t) for t in itertools.product(A, repeat=3)]
    for i in range(0, len(trip), B):
        yield {"k": "rad50", "items": trip[i:i + B]}
    low = [t.lower() for t in trip if t.lower() != t]
    for i in range(0, len(low), B):
        yield {"k": "rad50", "items": low[i:i + B]}
    nos = A.replace(" ", "")
    pre = []
    for n in (1, 2, 3):
        pre.extend("".join(t) for t in itertools.product(nos, repeat=n))
    for i in range(0, len(pre), B):
        yield {"k": "caret", "items": pre[i:i + B]}
    lowp = [t.lower() for t in pre if t.lower() != t]
    for i in range(0, len(lowp), B):
        yield {"k": "caret", "items": lowp[i:i + B]}
    strs = []
    for L in range(0, 13):
        for off in range(40):
            strs.append("".join(A[(off + 7 * j) % 40] for j in range(L)))
    for i in range(0, len(strs), B):
        yield {"k": "rad50", "items": strs[i:i + B]}
    yield {"k": "codes"}
    for c in range(128):
        ch = chr(c)
        if ch.upper() in A:
            continue
        yield {"k": "bad", "c": c}
    # beyond ASCII: every character that some case mapping relates to the alphabet (e.g. U+017F whose upper case is 'S', the Kelvin
    # sign whose lower case is 'k'), and every code point of a contiguous range (quick: up to U+24FF; thorough: the whole BMP and the
    # first supplementary planes up to U+1FFFF)
    near = [c for c in range(128, 0x110000) if not 0xD800 <= c < 0xE000
            and any(x in A.strip() for x in (chr(c).upper() + chr(c).lower() + chr(c).casefold()).upper())]
    yield {"k": "bad-range", "cs": near}
    top = 0x20000 if tier == "thorough" else 0x2500
    for lo in range(128, top, 256):
        if 0xD800 <= lo < 0xE000:
            continue
        yield {"k": "bad-range", "cs": list(range(lo, lo + 256))}
    for lit in ("^R", "^RABCD", "^Rabcde"):
        yield {"k": "badlit", "lit": lit}


def quote(s):
    # '/' is the conventional delimiter; none of / " ' belongs to the alphabet
    return "/" + s + "/"


def check(case, r, tier):
    k = case.get("k") or case.get("kind")
    if k == "single":
        return batch.replay_single(case, r)
    if k == "error":
        return batch.replay_error(case, r)
    if k == "rad50":
        items = [(("rad50", s), ".rad50 " + quote(s), words(s)) for s in case["items"]]
        batch.run_valid_batch(items, r, ID)
    elif k == "caret":
        items = [(("caret", s), ".word ^R" + s, words(s)) for s in case["items"]]
        # the literal is a number like any other: negated, it is the two's complement of the packed word
        for s in case["items"][::11]:
            w = words(s)
            v = (-(w[0] | (w[1] << 8))) & 0xFFFF
            items.append((("caret-neg", s), ".word -^R" + s, bytes([v & 255, v >> 8])))
            items.append((("caret-neg-imm", s), "mov #- ^R%s, r1" % s, b"\xc1\x15" + bytes([v & 255, v >> 8])))
        batch.run_valid_batch(items, r, ID)
    elif k == "codes":
        good = []
        for n in range(0, 40):
            good.append((("code", n), ".rad50 <%d.>" % n, bytes([(n * 1600) & 255, (n * 1600) >> 8])))
            w = (1 * 40 + n) * 40 + 2
            good.append((("code-mid", n), ".rad50 /a/<%d.>/b/" % n, bytes([w & 255, w >> 8])))
            w2 = (n * 40 + n) * 40 + n
            good.append((("code3", n), ".rad50 <%d.><%o><0x%x>" % (n, n, n), bytes([w2 & 255, w2 >> 8])))
        # several different codes in one directive, given directly, through symbols defined later, and between strings
        cs5 = [0, 1, 2, 38, 39]
        for a, b, c in itertools.product(cs5, repeat=3):
            w = (a * 40 + b) * 40 + c
            good.append((("codes3", a, b, c), ".rad50 <%d.><%d.><%d.>" % (a, b, c), bytes([w & 255, w >> 8])))
            w1, w2 = (1 * 40 + a) * 40 + 2, (b * 40 + 3) * 40 + c
            good.append((("codes-mixed", a, b, c), ".rad50 /A/<%d.>/B/<%d.>/C/<%d.>" % (a, b, c), bytes([w1 & 255, w1 >> 8, w2 & 255, w2 >> 8])))
        good.append((("codes-sym",), ".rad50 <k1><k2><k3>\nk1 = 5\nk2 = 6\nk3 = 7", bytes([((5 * 40 + 6) * 40 + 7) & 255, ((5 * 40 + 6) * 40 + 7) >> 8])))
        batch.run_valid_batch(good, r, ID)
        # a code computed from a label that stands *after* the statement: the length of a '.rad50' does not depend on its codes
        for text, want in (("s: .rad50 <e-s>\ne:\n", [2 * 1600]), ("s: .rad50 /A/<e-s>/B/\ne:\n", [(1 * 40 + 2) * 40 + 2]), (".link 1000\n.rad50 <z-1000>\nz:\n", [2 * 1600]),
                           ("s: .rad50 /ABC/<e-s>\ne: .word e-s\n", [(1 * 40 + 2) * 40 + 3, 4 * 1600, 4]), ("1$: .rad50 <2$-1$><2$-1$-1>\n2$:\n", [(2 * 40 + 1) * 40]),
                           ("s: .repeat 2 { .rad50 <e-s> }\ne:\n", [4 * 1600, 4 * 1600])):
            wb = b"".join(bytes([w & 255, w >> 8]) for w in want)
            out = _driver.assemble([("f.mac", text)])
            okk = out.status == "ok" and out.code == wb
            r.ran("ok" if okk else out.cls(), key=("code-from-later-label", text))
            if not okk:
                r.violation("code-from-later-label:%s" % (out.cls() if out.status != "ok" else "wrong-bytes"), "a <n> code taken from a label that follows the statement", {"kind": "single", "text": text, "expected_hex": wb.hex()}, wb.hex(), out.brief())
        # inside '.repeat' the same token is evaluated once per iteration and <n> may depend on '.'
        for n in (2, 3, 5):
            text = ".link 1000\ntb: .repeat %d { .rad50 /SEG/<<.-tb>/4+36> }\n" % n
            want = b"".join(words("SEG") + bytes([((30 + i) * 1600) & 255, ((30 + i) * 1600) >> 8]) for i in range(n))
            out = _driver.assemble([("r.mac", text)])
            okk = out.status == "ok" and out.code == want
            r.ran("ok" if okk else out.cls(), key=("rad50-repeat", n))
            if not okk:
                r.violation("rad50-in-repeat", ".rad50 with a '.'-dependent <n> inside .repeat", {"kind": "single", "text": text, "expected_hex": want.hex()}, want.hex(), out.brief())
        for n in [-1] + list(range(40, 65)):
            for text in (".rad50 <%d.>" % n, ".rad50 /ab/<%d.>" % n):
                batch.expect_error(text + "\n", r, ("badcode", text), {"kind": "error", "text": text + "\n"})
    elif k == "bad":
        ch = chr(case["c"])
        lit = {"\\": "\\\\", "/": "\\/"}.get(ch, ch)
        for text in (".rad50 /%s/" % lit, ".rad50 /ab%s/" % lit, ".rad50 \"%sA\"" % ("\\\"" if ch == '"' else lit)):
            batch.expect_error(text + "\n", r, ("badchar", text), {"kind": "error", "text": text + "\n"})
    elif k == "bad-range":
        for c in case["cs"]:
            ch = chr(c)
            for text in (".rad50 /%s/" % ch, ".rad50 /ab%s/" % ch, ".word ^R%s" % ch, ".word ^RA%sB" % ch):
                batch.expect_error(text + "\n", r, ("badchar", text), {"kind": "error", "text": text + "\n"})
    elif k == "badlit":
        text = ".word " + case["lit"] + "\n"
        batch.expect_error(text, r, ("badlit", text), {"kind": "error", "text": text})
    # the reference decoder itself closes the loop: unpack(expected) == padded input
    if k in ("rad50", "caret"):
        for s in case["items"][:: max(1, len(case["items"]) // 7)]:
            up = s.upper()
            pad = up + " " * ((-len(up)) % 3)
            assert ref.unpack(words(s)) == pad, (s, ref.unpack(words(s)))
