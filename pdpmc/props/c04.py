"""C04 Branches and PC-relative operands hit their target or are rejected — E1, exhaustive."""
from .. import batch, driver
from ..ref import isa
from . import c01

ID = "C04"
LEVEL = "exploration"
EXHAUSTIVE = True
CHUNK = 1
RULE = ("complete product: 17 branch mnemonics x every byte distance -300..+300 x 8 target spellings (.+-n octal, forward/backward label "
        "with a .blkb filler, label+-n, local label n / n:, decimal .+n., <.+n>, (.+n)); sob x 8 registers x every distance -140..+6 x the "
        "same spellings; PC-relative operands in 7 placements x 13 targets x 4 link bases and without any '.link' decoded by the independent decoder; branches and sob to constant addresses (symbol, symbol chain) under {no base, base last, base first}; and behind 12 first operands that take no operand word (pc, (pc), @pc, -(pc), @-(pc), sp, autoincrement/decrement forms) x 3 mnemonics; the same operand kinds inside an included file aiming at the including file (include at 4 offsets, 3 link regimes) and inside an unrolled '.repeat' body aiming at labels outside it (1-6 iterations). Accepted "
        "<=> distance even and inside the field's reach; accepted cases are batched and compared with the reference encoding, refused "
        "cases run alone and must fail with an error. Non-trivial = distinct (mnemonic, spelling, distance) or (placement, target, base)")
ASSUMPTIONS = ["reference opcodes and decoder from pdpmc/ref/isa.py", "which error kind is reported (out-of-bounds or odd) is not demanded"]
BR = sorted(n for n, (c, _b, _e) in isa.T.items() if c == "B")
SPELL = ["dot", "label", "labelpm", "local", "localcolon", "decimal", "angle", "paren"]
BASES = [0, 0o1000, 0o100000, 0o177770]
FIRST_NOWORD = [("pc", 0, 7), ("r7", 0, 7), ("(pc)", 1, 7), ("@pc", 1, 7), ("-(pc)", 4, 7), ("@-(pc)", 5, 7), ("sp", 0, 6), ("(sp)+", 2, 6),
                ("@(r3)+", 3, 3), ("-(r5)", 4, 5), ("@-(r0)", 5, 0), ("(r4)", 1, 4)]


def bound(tier):
    return "complete: %d branch mnemonics x 601 distances x %d spellings; sob 8 x 147 x %d; 7 placements x 12 targets x 4 bases" % (len(BR), len(SPELL), len(SPELL))


def off(n, dec=False):
    fmt = "%d." if dec else "%o"
    if n == 0:
        return "."
    return (".+" + fmt % n) if n > 0 else (".-" + fmt % -n)


def render(mn_ops, d, sp, uid):
    """statement(s) for a branch-like instruction 'mn_ops' (e.g. 'br' or 'sob r3,') whose target lies d bytes
    after the word following the instruction.  Returns (text, prefix bytes count, suffix bytes count) or None."""
    t = d + 2  # distance from '.'
    if sp == "dot":
        return "%s %s" % (mn_ops, off(t)), 0, 0
    if sp == "decimal":
        if t == 0:
            return None
        return "%s %s" % (mn_ops, off(t, dec=True)), 0, 0
    if sp == "angle":
        return "%s <%s>" % (mn_ops, off(t)), 0, 0
    if sp == "paren":
        return "%s (%s)" % (mn_ops, off(t)), 0, 0
    if sp == "label":
        if d >= 0:
            return "%s L%d\n.blkb %o\nL%d:" % (mn_ops, uid, d, uid), 0, d
        if d <= -2:
            return "L%d: .blkb %o\n%s L%d" % (uid, -d - 2, mn_ops, uid), -d - 2, 0
        return None
    if sp == "labelpm":
        if d >= 0:
            return "%s L%d+%o\nL%d:" % (mn_ops, uid, d, uid), 0, 0
        return "L%d: %s L%d-%o" % (uid, mn_ops, uid, -d - 2) if d <= -2 else None, 0, 0
    if sp in ("local", "localcolon"):
        name = "%o" % (uid + 1)
        ref = name + (":" if sp == "localcolon" else "")
        if d >= 0:
            return "%s %s\n.blkb %o\n%s:" % (mn_ops, ref, d, name), 0, d
        if d <= -2:
            return "%s: .blkb %o\n%s %s" % (name, -d - 2, mn_ops, ref), -d - 2, 0
        return None
    raise AssertionError(sp)


def cases(tier):
    for mn in BR:
        for sp in SPELL:
            yield {"k": "br", "mn": mn, "sp": sp}
    for reg in range(8):
        for sp in SPELL:
            yield {"k": "sob", "reg": reg, "sp": sp}
    for base in BASES + [None]:
        yield {"k": "rel", "base": base}     # None: no '.link' at all (the default base is applied at the end)
    yield {"k": "const-target"}
    yield {"k": "include"}
    yield {"k": "repeat"}
    yield {"k": "literal-text"}


def run_family(r, mn_ops, word_of, valid, drange, sp, tag):
    good, bad = [], []
    for d in drange:
        uid = d - drange[0]
        rd = render(mn_ops, d, sp, uid)
        if rd is None or rd[0] is None:
            continue
        text, pre, suf = rd
        key = (tag, sp, d)
        if valid(d):
            w = word_of(d)
            # odd fillers would put the instruction itself on an odd address: only even d is valid, so pre/suf are even
            good.append((key, text, b"\x00" * pre + bytes([w & 255, w >> 8]) + b"\x00" * suf))
        else:
            bad.append((key, text))
    batch.run_valid_batch(good, r, ID, describe=lambda it: {"family": sp})
    for key, text in bad:
        out = driver.assemble([("e.mac", text + "\n")])
        r.ran(out.cls(), key=key)
        if out.status != "fail":
            if out.status == "ok":
                sig, what = "accepted:" + sp, "target outside the reach (or at an odd distance) was assembled without an error"
            elif out.status == "crash":
                sig, what = "crash:%s@%s:%s" % (out.exc, out.site, sp), "internal exception instead of a diagnostic"
            else:
                sig, what = out.status + ":" + sp, "outcome %s" % out.status
            r.violation(sig, what + " (distance %d)" % key[2], {"kind": "error", "text": text + "\n"}, "fail", out.brief())


def check(case, r, tier):
    k = case.get("k") or case.get("kind")
    if k == "literal-text":
        # what stands *inside* a character literal is text, not syntax: a '(' or ':' there must not change how the target is read
        for mn in ("br", "bne", "sob r1,"):
            for tmpl in ("1: nop\nnop\n%s 1+'%s-'%s\n", "1: nop\n%s 1 + \"%s%s - \"%s%s\n", "lab: nop\nnop\n%s lab+'%s-'%s\n", "2: nop\n%s 2+<'%s-'%s>\n"):
                outs = {}
                for ch in ("a", "(", ":", ")", ";"):
                    n = tmpl.count("%s") - 1
                    text = ".link 1000\n" + tmpl % ((mn,) + (ch,) * n)
                    o = driver.assemble([("b.mac", text)])
                    outs[ch] = (o.status, o.code, tuple(sorted(set(o.error_kinds()))), text)
                    r.ran(o.cls(), key=("literal-text", mn, tmpl, ch))
                ref = outs["a"]
                for ch, got in outs.items():
                    if got[:3] != ref[:3]:
                        r.violation("branch-target-depends-on-literal-text:%s-vs-%s" % (ref[0], got[0]),
                                    "%s with the character literal '%s gives another result than with 'a (both differences are zero)" % (mn, ch),
                                    {"k": "text-pair", "a": ref[3], "b": got[3]}, {"status": ref[0], "bytes": ref[1].hex() if ref[1] else None}, {"status": got[0], "bytes": got[1].hex() if got[1] else None, "errors": got[2]})
        return
    if k == "text-pair":
        a = driver.assemble([("b.mac", case["a"])])
        b = driver.assemble([("b.mac", case["b"])])
        r.ran(a.cls(), key=None)
        if (a.status, a.code) != (b.status, b.code):
            r.violation("branch-target-depends-on-literal-text:replay", "different results", case, a.brief(), b.brief())
        return
    if k == "single":
        return batch.replay_single(case, r)
    if k == "error":
        return batch.replay_error(case, r)
    if k == "stmt":
        return c01.run_one(case["mn"], case["base"], case["text"], case["spec"], r)
    if k == "br":
        mn = case["mn"]
        base = isa.T[mn][1]
        run_family(r, mn, lambda d: base | ((d // 2) & 0xFF), lambda d: d % 2 == 0 and -256 <= d <= 254,
                   range(-300, 301), case["sp"], mn)
    elif k == "sob":
        reg = case["reg"]
        run_family(r, "sob r%d," % reg, lambda d: 0o77000 | (reg << 6) | (-d // 2), lambda d: d % 2 == 0 and -126 <= d <= 0,
                   range(-140, 7), case["sp"], "sob r%d" % reg)
    elif k == "const-target":
        # targets that are plain numbers (or symbols assigned plain numbers) while the link base is not yet known: default base,
        # base set by a '.link' at the end, base set first (control)
        for reg in ("none", "last", "first"):
            base = 0o1000 if reg == "none" else 0o3000
            pre = ".link %o\n" % base if reg == "first" else ""
            post = ".link %o\n" % base if reg == "last" else ""
            for d in (-6, -2, 0, 2, 10, 0o376, -0o400):
                tgt = base + 4 + 2 + d       # the branch stands at base+4
                for form, defs in (("ka", "ka = %o\n" % tgt),   # (a bare number after a branch mnemonic is a local label, not an address)
                                    ("kb", "kb = kc + 2\nkc = %o\n" % (tgt - 2))):
                    for mn, word in (("br", 0o400 | ((d // 2) & 0xFF)), ("bne", 0o1000 | ((d // 2) & 0xFF))) + ((("sob r1,", 0o77100 | (-d // 2)),) if -126 <= d <= 0 else ()):
                        for defs_first in (True, False):
                            text = pre + (defs if defs_first else "") + "nop\nnop\n%s %s\nnop\n" % (mn, form) + ("" if defs_first else defs) + post
                            want = b"\xa0\x00\xa0\x00" + bytes([word & 255, word >> 8]) + b"\xa0\x00"
                            out = driver.assemble([("c.mac", text)])
                            good = out.status == "ok" and out.base == base and out.code == want
                            r.ran("ok" if good else out.cls(), key=("const-target", reg, d, form, mn, defs_first))
                            if not good:
                                r.violation("const-target:%s:%s" % (reg, "rejected" if out.status == "fail" else "wrong" if out.status == "ok" else out.cls()),
                                            "%s to the constant address %o from %o" % (mn, tgt, base + 4), {"kind": "single", "text": text, "expected_hex": want.hex()}, want.hex(), out.brief())
        return
    elif k == "include":
        # branches and PC-relative operands inside an included file whose targets lie in the including file (and the
        # other way round), the include at several offsets, the base set first / last / defaulted
        for pad in (0, 2, 6, 20):
            for reg in ("first", "last", "none"):
                base = 0o2000 if reg != "none" else 0o1000
                inc = "inner:\tnop\n\tbr outer\n\tmov outer, r1\n\tjsr pc, @after\n\tsob r2, outer\n\tmov inner, after\n\t.word outer-., inner-outer\n"
                main = (".link %o\n" % base if reg == "first" else "") + "outer::\t.blkb %o\n\t.include \"inc.mac\"\nafter::\tmov inner2, r0\n\tbr after\n" % pad + \
                    (".link %o\n" % base if reg == "last" else "")
                inc = inc.replace("inner:", "inner::")
                main = main.replace("inner2", "inner")
                out = driver.assemble([("m.mac", main)], tree={"inc.mac": inc})
                r.states += 1 if hasattr(r, "states") else 0
                key = ("include", pad, reg)
                ok = out.status == "ok" and out.base == base
                problems = []
                if ok:
                    words = isa.to_words(out.code[pad:])
                    inner = base + pad
                    after = inner + 2 + 2 + 4 + 4 + 2 + 6 + 4
                    env = {"outer": base, "inner": inner, "after": after}
                    specs = [("Z", 0o240, []), ("B", 0o400, [("ea", "outer")]), ("SD", 0o10000, [("rel", "outer"), ("reg0", 1)]),
                             ("RD", 0o4000, [("r", 7), ("reld", "after")]), ("SOB", 0o77000, [("r", 2), ("ea", "outer")]),
                             ("SD", 0o10000, [("rel", "inner"), ("rel", "after")])]
                    pos = 0
                    for cls, opb, ops in specs:
                        c, b, dec, nxt = isa.decode(words, pos)
                        if (c, b) != (cls, opb):
                            problems.append("word %d decodes as %s %o" % (pos, c, b))
                            break
                        at = inner + 2 * pos
                        for o, (kind, val) in zip(dec, ops):
                            if kind == "ea":
                                tgt = at + 2 + 2 * o["disp"]
                                if tgt != env[val]:
                                    problems.append("branch at %o reaches %o, its target %s is at %o" % (at, tgt, val, env[val]))
                            elif kind in ("rel", "reld"):
                                ea = isa.effective_address(o, inner)
                                if ea != env[val] & 0xFFFF or o["mode"] != (6 if kind == "rel" else 7):
                                    problems.append("relative operand at %o addresses %o, its target %s is at %o" % (at, ea, val, env[val]))
                        pos = nxt
                    w1, w2 = words[pos], words[pos + 1]
                    if w1 != (base - (inner + 2 * pos)) & 0xFFFF or w2 != (inner - base) & 0xFFFF:
                        problems.append("'.word outer-., inner-outer' holds %o, %o" % (w1, w2))
                    # the including file's own reference into the included file
                    tail = isa.to_words(out.code[pad + 2 * (pos + 2):])
                    c, b, dec, nxt = isa.decode(tail, 0)
                    if isa.effective_address(dec[0], after) != inner:
                        problems.append("'mov inner, r0' after the include addresses %o, inner is at %o" % (isa.effective_address(dec[0], after), inner))
                else:
                    problems.append("not assembled: %s" % out.cls())
                r.ran("ok" if not problems else "bad", key=key)
                for pr in problems[:1]:
                    r.violation("include-target:%s" % reg, pr, {"k": "files-prog", "main": main, "inc": inc}, None, out.brief())
        return
    elif k == "repeat":
        # an unrolled loop body referring to labels outside the body: every iteration must reach the same target
        for n in (1, 2, 3, 4, 6):
            for reg in ("first", "none"):
                base = 0o2000 if reg == "first" else 0o1000
                body = "inc cnt\n\tsob r1, top\n\tbr top\n\tmov @cnt, r2"
                text = (".link %o\n" % base if reg == "first" else "") + "top:\tnop\n\t.repeat %d {\n\t%s\n\t}\ncnt:\t.word 0\n" % (n, body)
                out = driver.assemble([("r.mac", text)])
                problems = []
                if out.status == "ok" and out.base == base:
                    words = isa.to_words(out.code)
                    cnt = base + 2 + n * 12
                    pos = 1
                    for it in range(n):
                        for kind in ("rel", "sob", "br", "reld"):
                            c, b, dec, nxt = isa.decode(words, pos)
                            at = base + 2 * pos
                            if kind in ("rel", "reld"):
                                ea = isa.effective_address(dec[0], base)
                                if ea != cnt:
                                    problems.append("iteration %d: operand at %o addresses %o, cnt is at %o" % (it, at, ea, cnt))
                            else:
                                d = dec[-1]["disp"]
                                if at + 2 + 2 * d != base:
                                    problems.append("iteration %d: branch at %o reaches %o, top is at %o" % (it, at, at + 2 + 2 * d, base))
                            pos = nxt
                else:
                    problems.append("not assembled: %s" % out.cls())
                r.ran("ok" if not problems else "bad", key=("repeat", n, reg))
                for pr in problems[:1]:
                    r.violation("repeat-target", pr, {"kind": "single", "text": text, "expected_hex": "00"}, None, out.brief())
        return
    elif k == "rel":
        base = case["base"]
        # targets: text, value spec (resolved against bk = base of the one-instruction program, fw = its end)
        def targets(extoff):
            return [("0", 0), ("2", 2), ("776", 0o776), ("bk", "bk"), (".", "bk"), (".+2", ["bk", 2]),
                    (".+%o" % extoff, ["bk", extoff]), ("fw", "fw"), ("177776", 0o177776), ("177777", 0o177777),
                    ("bk-2", ["bk", -2]), ("fw+4", ["fw", 4]), ("-2", -2)]
        for dfr in (False, True):
            m, at = (7, "@") if dfr else (6, "")
            for tt, tv in targets(2):
                c01.run_one("clr", base, "clr %s%s" % (at, tt), ["D", 0o5000, [["gen", m, 7, "rel", tv]]], r)
                c01.run_one("mov", base, "mov %s%s, r1" % (at, tt), ["SD", 0o10000, [["gen", m, 7, "rel", tv], ["gen", 0, 1, None, None]]], r)
                c01.run_one("mov", base, "mov r1, %s%s" % (at, tt), ["SD", 0o10000, [["gen", 0, 1, None, None], ["gen", m, 7, "rel", tv]]], r)
                c01.run_one("jsr", base, "jsr r5, %s%s" % (at, tt), ["RD", 0o4000, [["reg", 5], ["gen", m, 7, "rel", tv]]], r)
                c01.run_one("ldf", base, "ldf %s%s, ac1" % (at, tt), ["FSA", 0o172400, [["gen", m, 7, "rel", tv], ["ac", 1]]], r)
            for tt, tv in targets(4):
                c01.run_one("mov", base, "mov #5, %s%s" % (at, tt), ["SD", 0o10000, [["gen", 2, 7, "val", 5], ["gen", m, 7, "rel", tv]]], r)
                c01.run_one("mov", base, "mov 6(r2), %s%s" % (at, tt), ["SD", 0o10000, [["gen", 6, 2, "val", 6], ["gen", m, 7, "rel", tv]]], r)
                for t2, v2 in targets(2)[:8]:
                    c01.run_one("cmp", base, "cmp %s%s, %s" % (at, t2, tt), ["SD", 0o20000, [["gen", m, 7, "rel", v2], ["gen", 6, 7, "rel", tv]]], r)
            # a first operand that names the program counter (or any register) without taking an operand word: the
            # relative operand behind it is counted from the word after its own displacement word all the same
            for tt, tv in targets(2):
                for ft, fm, fr in FIRST_NOWORD:
                    for mn, opb in (("mov", 0o10000), ("add", 0o60000), ("bisb", 0o150000)):
                        c01.run_one(mn, base, "%s %s, %s%s" % (mn, ft, at, tt), ["SD", opb, [["gen", fm, fr, None, None], ["gen", m, 7, "rel", tv]]], r)
