"""C13 Output containers carry exactly the image — E1 over images/names/formats + CLI selector configurations."""
import os
import itertools
from .. import driver
from ..ref import tape

ID = "C13"
LEVEL = "exploration"
EXHAUSTIVE = True
CHUNK = 1
CASE_TIMEOUT = 900
RULE = ("complete enumeration of the listed space: image lengths 0..300 and {511,512,513,514,4095,4096} x content families {counter, zeros, "
        "0xFF, alternating, byte sums that are 65534/65535/65536/2*65535/131071 and multiples of 65535} x bases {0,1000,100000,177776} x "
        "tape names of every length 0..16 (ASCII and Cyrillic) x {raw, bin, wav, turbo wav} through the format writers, and through the "
        "command line every output selector (-o f.bin, -o f.BIN, -o f, -o dir/f.bin, --implicit-bin with .mac/.MAC/no suffix, make_bin/"
        "make_raw/make_wav/make_turbo_wav without path, with relative path, into a sub-directory, from a source in a sub-directory, "
        "several directives at once, several tapes with different names, '-' as source (standard input) and '-', '-.bin', '-.raw' as -o target (standard output)). Every written file is read back by independent readers "
        "(pdpmc/ref/tape.py): raw = bytes, bin = base,length,bytes, WAV = well-formed RIFF whose demodulated stream is header(base, "
        "length, 16-byte padded name), bytes, end-around-carry checksum. Non-trivial = distinct (format, image, name) or (selector, "
        "layout) case")
ASSUMPTIONS = ["demodulator and checksum written from the BK-0010 tape description (known-answer vectors in selftest); pilot length and "
               "sample rate are not demanded"]
BASES = [0, 0o1000, 0o100000, 0o177776]


def bound(tier):
    return "complete for the listed product (lengths 0..%d + 6 large, 10 content families, 4 bases, 34 names, 4 formats); %d CLI layouts (incl. standard input/output)" % (2048 if tier == "thorough" else 300, len(CLI_LAYOUTS))


def content(family, n):
    if family == "counter":
        return bytes((i * 7 + 1) & 255 for i in range(n))
    if family == "zeros":
        return bytes(n)
    if family == "ff":
        return b"\xff" * n
    if family == "alt":
        return bytes(0xAA if i % 2 else 0x55 for i in range(n))
    raise AssertionError(family)


def special_images():
    out = []
    for n, label in ((257, "sum=65535"), (514, "sum=2*65535"), (771, "sum=3*65535")):
        out.append((label, b"\xff" * n))
    out.append(("sum=65534", b"\xff" * 256 + b"\xfe"))
    out.append(("sum=65536", b"\xff" * 257 + b"\x01"))
    out.append(("sum=131071", b"\xff" * 514 + b"\x01"))
    out.append(("sum=131070", b"\xff" * 514))
    out.append(("sum=196607", b"\xff" * 771 + b"\x02"))
    out.append(("sum=65535-mixed", bytes([1, 2, 3]) + b"\xff" * 256 + bytes([249])))
    return out


def names():
    out = []
    for L in range(0, 17):
        out.append(("NAME5678ABCDEFGH"[:L]))
        out.append(("ИМЯфайлаБКтестЫЙ"[:L]))
    return out


def cases(tier):
    top = 2049 if tier == "thorough" else 301
    for L in range(0, top, 10):
        yield {"k": "fmt", "lens": list(range(L, min(L + 10, top)))}
    yield {"k": "fmt-big"}
    yield {"k": "fmt-special"}
    yield {"k": "fmt-names"}
    for i in range(len(CLI_LAYOUTS)):
        yield {"k": "cli", "i": i}


def check_format(r, fmt, base, data, name16, key, case):
    from pdpy11.formats import file_formats
    try:
        if fmt in ("bk_wav", "bk_turbo_wav"):
            blob = file_formats[fmt](base, data, name16)
        else:
            blob = file_formats[fmt](base, data)
    except Exception as ex:  # noqa
        r.ran("crash", key=key)
        r.violation("format-writer-crash:%s:%s" % (fmt, type(ex).__name__), "the format writer raised %r" % ex, case)
        return
    prob = judge_blob(fmt, blob, base, data, name16)
    r.ran("ok" if prob is None else "bad", key=key)
    if prob:
        r.violation("%s:%s" % (fmt, prob[0]), prob[1], case, None, None)


def judge_blob(fmt, blob, base, data, name16):
    if fmt == "raw":
        return None if blob == data else ("raw-content", "raw file differs from the image")
    if fmt == "bin":
        try:
            b, d = tape.read_bin(blob)
        except tape.TapeError as ex:
            return ("bin-malformed", str(ex))
        if (b, d) != (base, data):
            return ("bin-content", "bin file holds base %o and %d bytes" % (b, len(d)))
        return None
    try:
        t = tape.decode_tape(blob, turbo=fmt == "bk_turbo_wav")
    except tape.TapeError as ex:
        return ("wav-malformed", str(ex))
    if t["base"] != base or t["length"] != len(data):
        return ("tape-header", "tape header says base %o length %d" % (t["base"], t["length"]))
    if t["name"] != name16:
        return ("tape-name", "tape header name %r, expected %r" % (t["name"], name16))
    if t["data"] != data:
        return ("tape-data", "demodulated bytes differ from the image")
    want = tape.checksum(data)
    if t["checksum"] != want:
        return ("tape-checksum:" + ("sum-multiple-of-65535" if sum(data) % 65535 == 0 and sum(data) else "other"),
                "recorded checksum %06o, the BK checksum (16-bit sum with end-around carry) is %06o (byte sum %d)" % (t["checksum"], want, sum(data)))
    return None


# ---- CLI layouts: (tree, cwd, argv, expected outputs {relative path: (format, name or None)}) -------------------------------------------
SRC = "\t.link 1000\nstart:\tmov #start, r0\n\t.word 1, 2, 3\n\t.byte 7\n"
IMG = b"\xc0\x15\x00\x02\x01\x00\x02\x00\x03\x00\x07"


def _p(name):
    return name.encode("bk").ljust(16, b" ")


CLI_LAYOUTS = [
    ({"a.mac": SRC}, ".", ["a.mac", "-o", "out.bin"], {"out.bin": ("bin", None)}),
    ({"a.mac": SRC}, ".", ["a.mac", "-o", "OUT.BIN"], {"OUT.BIN": ("bin", None)}),
    ({"a.mac": SRC}, ".", ["a.mac", "-o", "out.Bin"], {"out.Bin": ("bin", None)}),
    ({"a.mac": SRC}, ".", ["a.mac", "-o", "out"], {"out": ("raw", None)}),
    ({"a.mac": SRC}, ".", ["a.mac", "-o", "out.raw"], {"out.raw": ("raw", None)}),
    ({"a.mac": SRC}, ".", ["a.mac", "-o", "out.sav"], {"out.sav": ("raw", None)}),
    ({"a.mac": SRC}, ".", ["a.mac", "-o", "out.bin.x"], {"out.bin.x": ("raw", None)}),
    ({"a.mac": SRC, "d/keep": ""}, ".", ["a.mac", "-o", "d/f.bin"], {"d/f.bin": ("bin", None)}),
    ({"a.mac": SRC, "d.bin/keep": ""}, ".", ["a.mac", "-o", "d.bin/f"], {"d.bin/f": ("raw", None)}),
    ({"a.mac": SRC}, ".", ["a.mac", "--implicit-bin"], {"a.bin": ("bin", None)}),
    ({"a.MAC": SRC}, ".", ["a.MAC", "--implicit-bin"], {"a.bin": ("bin", None)}),
    ({"prog": SRC}, ".", ["prog", "--implicit-bin"], {"prog.bin": ("bin", None)}),
    ({"a.asm": SRC}, ".", ["a.asm", "--implicit-bin"], {"a.asm.bin": ("bin", None)}),
    ({"s/a.mac": SRC}, ".", ["s/a.mac", "--implicit-bin"], {"s/a.bin": ("bin", None)}),
    ({"a.mac": SRC + "make_bin\n"}, ".", ["a.mac"], {"a.bin": ("bin", None)}),
    ({"a.mac": SRC + "make_bin\n"}, ".", ["a.mac", "--implicit-bin"], {"a.bin": ("bin", None)}),
    ({"a.mac": SRC + "make_raw\n"}, ".", ["a.mac"], {"a": ("raw", None)}),
    ({"a.mac": SRC + "make_wav\n"}, ".", ["a.mac"], {"a.wav": ("bk_wav", "a")}),
    ({"a.mac": SRC + "make_turbo_wav\n"}, ".", ["a.mac"], {"a.wav": ("bk_turbo_wav", "a")}),
    ({"A.MAC": SRC + "make_bin\n"}, ".", ["A.MAC"], {"A.bin": ("bin", None)}),
    ({"a.mac": SRC + "make_bin \"x.bin\"\n"}, ".", ["a.mac"], {"x.bin": ("bin", None)}),
    ({"a.mac": SRC + "make_bin \"x.dat\"\n"}, ".", ["a.mac"], {"x.dat": ("bin", None)}),
    ({"a.mac": SRC + "make_raw \"x.bin\"\n"}, ".", ["a.mac"], {"x.bin": ("raw", None)}),
    ({"a.mac": SRC + "make_bk0010_rom \"x.rom\"\n"}, ".", ["a.mac"], {"x.rom": ("bin", None)}),
    ({"a.mac": SRC + "make_bin \"d/x.bin\"\n", "d/keep": ""}, ".", ["a.mac"], {"d/x.bin": ("bin", None)}),
    ({"s/a.mac": SRC + "make_bin \"x.bin\"\n"}, ".", ["s/a.mac"], {"s/x.bin": ("bin", None)}),
    ({"s/a.mac": SRC + "make_bin\n"}, ".", ["s/a.mac"], {"s/a.bin": ("bin", None)}),
    ({"s/a.mac": SRC + "make_raw \"../up.raw\"\n"}, ".", ["s/a.mac"], {"up.raw": ("raw", None)}),
    ({"s/a.mac": SRC + "make_wav \"t/x.wav\"\n", "s/t/keep": ""}, ".", ["s/a.mac"], {"s/t/x.wav": ("bk_wav", "x")}),
    ({"s/a.mac": SRC + "make_bin \"x.bin\"\n"}, "s", ["a.mac"], {"s/x.bin": ("bin", None)}),
    # unusual first characters of a file name (a leading '~' is a device only if the name is a registered device), run from another directory
    ({"s/a.mac": SRC + "make_bin \"~prog.bin\"\nmake_raw \"~image\"\n"}, ".", ["s/a.mac"], {"s/~prog.bin": ("bin", None), "s/~image": ("raw", None)}),
    ({"s/a.mac": SRC + "make_wav \"~t.wav\"\nmake_raw \"~speakers.raw\"\n"}, ".", ["s/a.mac"], {"s/~t.wav": ("bk_wav", "~t"), "s/~speakers.raw": ("raw", None)}),
    ({"s/a.mac": SRC + "make_bin \".hid.bin\"\nmake_raw \"two words.raw\"\nmake_raw \"-dash\"\n"}, ".", ["s/a.mac"], {"s/.hid.bin": ("bin", None), "s/two words.raw": ("raw", None), "s/-dash": ("raw", None)}),
    ({"s/a.mac": "\t.link 1000\n\t.include \"~inc.mac\"\n\tinsert_file \"~tail.dat\"\nmake_bin \"x.bin\"\n", "s/~inc.mac": "start:\tmov #start, r0\n\t.word 1, 2, 3\n", "s/~tail.dat": "\x07"}, ".", ["s/a.mac"], {"s/x.bin": ("bin", None)}),
    ({"s/a.mac": SRC + "make_bin \"~prog.bin\"\n"}, "s", ["a.mac"], {"s/~prog.bin": ("bin", None)}),
    ({"a.mac": SRC + "make_wav \"tape.wav\"\n"}, ".", ["a.mac"], {"tape.wav": ("bk_wav", "tape")}),
    ({"a.mac": SRC + "make_wav \"tape.WAV\"\n"}, ".", ["a.mac"], {"tape.WAV": ("bk_wav", "tape")}),
    ({"a.mac": SRC + "make_wav \"tape\"\n"}, ".", ["a.mac"], {"tape": ("bk_wav", "tape")}),
    ({"a.mac": SRC + "make_wav \"tape.wav\", \"GAME\"\n"}, ".", ["a.mac"], {"tape.wav": ("bk_wav", "GAME")}),
    ({"a.mac": SRC + "make_turbo_wav \"tape.wav\", \"ИГРА 1\"\n"}, ".", ["a.mac"], {"tape.wav": ("bk_turbo_wav", "ИГРА 1")}),
    ({"a.mac": SRC + "make_wav \"tape.wav\", \"\"\n"}, ".", ["a.mac"], {"tape.wav": ("bk_wav", "")}),
    ({"a.mac": SRC + "make_wav \"tape.wav\", \"SIXTEEN CHARS!!!\"\n"}, ".", ["a.mac"], {"tape.wav": ("bk_wav", "SIXTEEN CHARS!!!")}),
    ({"a.mac": SRC + "make_bin\nmake_raw \"r.raw\"\nmake_wav\nmake_turbo_wav \"t.wav\"\n"}, ".", ["a.mac"],
     {"a.bin": ("bin", None), "r.raw": ("raw", None), "a.wav": ("bk_wav", "a"), "t.wav": ("bk_turbo_wav", "t")}),
    ({"a.mac": SRC + "make_wav \"one.wav\", \"GAME\"\nmake_wav \"two.wav\", \"GAME.BAK\"\nmake_wav \"alpha.wav\"\nmake_wav \"beta.wav\"\n"}, ".", ["a.mac"],
     {"one.wav": ("bk_wav", "GAME"), "two.wav": ("bk_wav", "GAME.BAK"), "alpha.wav": ("bk_wav", "alpha"), "beta.wav": ("bk_wav", "beta")}),
    ({"a.mac": SRC + "make_turbo_wav \"one.wav\", \"A\"\nmake_turbo_wav \"two.wav\", \"B\"\nmake_bin \"one.bin\"\nmake_bin \"two.bin\"\n"}, ".", ["a.mac"],
     {"one.wav": ("bk_turbo_wav", "A"), "two.wav": ("bk_turbo_wav", "B"), "one.bin": ("bin", None), "two.bin": ("bin", None)}),
    ({"a.mac": SRC + "make_bin \"m.bin\"\n"}, ".", ["a.mac", "-o", "o.bin"], {"m.bin": ("bin", None), "o.bin": ("bin", None)}),
    ({"a.mac": SRC + "make_raw \"m.raw\"\n"}, ".", ["a.mac", "-o", "o"], {"m.raw": ("raw", None), "o": ("raw", None)}),
    ({"a.mac": "\t.link 1000\nstart:\tmov #start, r0\n", "b.mac": "\t.word 1, 2, 3\n\t.byte 7\nmake_bin\n"}, ".", ["a.mac", "b.mac"], {"b.bin": ("bin", None)}),
    ({"a.mac": "\t.link 1000\nstart:\tmov #start, r0\n", "b.mac": "\t.word 1, 2, 3\n\t.byte 7\n"}, ".", ["a.mac", "b.mac", "--implicit-bin"], {"a.bin": ("bin", None)}),
    ({"a.mac": "\t.link 1000\nstart:\tmov #start, r0\n\t.include \"i/inc.mac\"\n", "i/inc.mac": "\t.word 1, 2, 3\n\t.byte 7\nmake_raw \"inc.raw\"\nmake_bin\n"}, ".", ["a.mac"],
     {"i/inc.raw": ("raw", None), "i/inc.bin": ("bin", None)}),
    # working directory different from the source directory, output directives inside an included file
    ({"proj/main.mac": "\t.link 1000\nstart:\tmov #start, r0\n\t.include \"lib.mac\"\n", "proj/lib.mac": "\t.word 1, 2, 3\n\t.byte 7\nmake_bin\nmake_raw \"out/l.raw\"\n", "proj/out/keep": "", "other/keep": ""},
     "other", ["../proj/main.mac"], {"proj/lib.bin": ("bin", None), "proj/out/l.raw": ("raw", None)}),
    ({"proj/main.mac": "\t.link 1000\nstart:\tmov #start, r0\n\t.include \"sub/lib.mac\"\n", "proj/sub/lib.mac": "\t.word 1, 2, 3\n\t.byte 7\nmake_wav\n"},
     ".", ["proj/main.mac"], {"proj/sub/lib.wav": ("bk_wav", "lib")}),
    ({"a.mac": SRC}, ".", ["a.mac", "-o", "out.bin", "--charset", "koi8-r"], {"out.bin": ("bin", None)}),
    ({"a.mac": SRC + "make_wav \"t.wav\", \"ИМЯ\"\n"}, ".", ["a.mac", "--charset", "koi8-r"], {"t.wav": ("bk_wav", ("koi8-r", "ИМЯ"))}),
    ({"a.mac": SRC + "make_wav \"t.wav\", \"ИМЯ\"\n"}, ".", ["a.mac", "--charset", "utf-8"], {"t.wav": ("bk_wav", ("utf-8", "ИМЯ"))}),
    # output paths and tape names computed per iteration of a '.repeat' (a <n> chunk that depends on '.')
    ({"a.mac": "\t.link 1000\nstart:\t.repeat 3 {\n\tmov #start, r0\nmake_raw \"part\" <60 + <.-start>/4> \".raw\"\n\t}\n"}, ".", ["a.mac"],
     {"part1.raw": ("raw", None), "part2.raw": ("raw", None), "part3.raw": ("raw", None)}, "", b"\xc0\x15\x00\x02" * 3),
    ({"a.mac": "\t.link 1000\nstart:\t.repeat 2 {\n\tmov #start, r0\nmake_wav \"t\" <60 + <.-start>/4> \".wav\", \"N\" <100 + <.-start>/4>\n\t}\n"}, ".", ["a.mac"],
     {"t1.wav": ("bk_wav", "NA"), "t2.wav": ("bk_wav", "NB")}, "", b"\xc0\x15\x00\x02" * 2),
    ({"a.mac": "\t.link 1000\nstart:\tmov #start, r0\nmake_bin \"o\" <60 + n> \".bin\"\nn = 5\n"}, ".", ["a.mac"], {"o5.bin": ("bin", None)}, "", b"\xc0\x15\x00\x02"),
    # a source whose name does not end in .mac: the default output name must never be the source itself
    ({"prog.s": SRC + "make_raw\n"}, ".", ["prog.s"], None),
    ({"prog": SRC + "make_raw\n"}, ".", ["prog"], None),
    ({"a.mac": SRC + "\t.include \"defs.inc\"\n", "defs.inc": "make_raw\n"}, ".", ["a.mac"], None),
    ({"prog.s": SRC + "make_bin\n"}, ".", ["prog.s"], {"prog.s.bin": ("bin", None)}),
    ({"prog.s": SRC + "make_wav\n"}, ".", ["prog.s"], {"prog.s.wav": ("bk_wav", "prog.s")}),
    # standard output as the output "path" and standard input as the source
    ({"a.mac": SRC}, ".", ["a.mac", "-o", "-"], {"<stdout>": ("raw", None)}),
    ({"a.mac": SRC}, ".", ["a.mac", "-o-.bin"], {"<stdout>": ("bin", None)}),
    ({"a.mac": SRC}, ".", ["a.mac", "-o-.raw"], {"<stdout>": ("raw", None)}),
    ({"a.mac": SRC + "make_bin \"m.bin\"\n"}, ".", ["a.mac", "-o", "-"], {"<stdout>": ("raw", None), "m.bin": ("bin", None)}),
    # diagnostics must not end up in the image: a warning is printed while the image goes to standard output
    ({"a.mac": SRC + "\t.byte\n"}, ".", ["a.mac", "-o", "-", "--report-format", "bare"], {"<stdout>": ("raw", None)}, "", IMG + b"\x00"),
    ({"a.mac": SRC + "\t.byte\n"}, ".", ["a.mac", "-o", "-", "--report-format", "graphical"], {"<stdout>": ("raw", None)}, "", IMG + b"\x00"),
    ({"a.mac": SRC + "\t.byte\n\tclr @r0\n"}, ".", ["a.mac", "-o-.bin", "--report-format", "bare", "-Wall"], {"<stdout>": ("bin", None)}, "", IMG + b"\x00\x08\x0a"),
    ({"a.mac": SRC + "\t.byte\n"}, ".", ["a.mac", "-o-.BIN", "--report-format", "bare"], {"<stdout>": ("bin", None)}, "", IMG + b"\x00"),
    ({"a.mac": SRC + "\t.byte\n"}, ".", ["a.mac", "-o-.rom", "--report-format", "bare"], {"<stdout>": ("raw", None)}, "", IMG + b"\x00"),
    ({"a.mac": SRC + "\t.byte\n"}, ".", ["a.mac", "-o-.sav", "--report-format", "bare", "-Wall"], {"<stdout>": ("raw", None)}, "", IMG + b"\x00"),
    ({"keep": ""}, ".", ["-", "-o", "out.bin"], {"out.bin": ("bin", None)}, SRC),
    ({"keep": ""}, ".", ["-", "-o-.bin"], {"<stdout>": ("bin", None)}, SRC),
    ({"keep": ""}, ".", ["-", "--implicit-bin"], {"stdin.bin": ("bin", None)}, SRC),
    ({"b.mac": "\t.word 1, 2, 3\n\t.byte 7\n"}, ".", ["-", "b.mac", "-o", "out.bin"], {"out.bin": ("bin", None)}, "\t.link 1000\nstart:\tmov #start, r0\n"),
    ({"a.mac": "\t.link 1000\nstart:\tmov #start, r0\n"}, ".", ["a.mac", "-", "--implicit-bin"], {"a.bin": ("bin", None)}, "\t.word 1, 2, 3\n\t.byte 7\n"),
]


def check(case, r, tier):
    k = case["k"]
    if k == "fmt":
        for L in case["lens"]:
            fam = ["counter", "zeros", "ff", "alt"][L % 4]
            data = content(fam, L)
            base = BASES[L % 4]
            nm = names()[L % 34]
            for fmt in ("raw", "bin", "bk_wav", "bk_turbo_wav"):
                check_format(r, fmt, base, data, _p(nm), (fmt, L, fam, base, nm), {"k": "one", "fmt": fmt, "base": base, "hex": data.hex(), "name": nm})
            if L in (0, 1, 2, 3, 255, 256, 257, 258):
                for fam2, base2 in itertools.product(("counter", "zeros", "ff", "alt"), BASES):
                    d2 = content(fam2, L)
                    for fmt in ("raw", "bin", "bk_wav", "bk_turbo_wav"):
                        check_format(r, fmt, base2, d2, _p("N"), (fmt, L, fam2, base2, "N"), {"k": "one", "fmt": fmt, "base": base2, "hex": d2.hex(), "name": "N"})
        return
    if k == "fmt-big":
        for L in (511, 512, 513, 514, 4095, 4096):
            for fam in ("counter", "ff", "zeros"):
                data = content(fam, L)
                for fmt in ("raw", "bin", "bk_wav", "bk_turbo_wav"):
                    check_format(r, fmt, 0o1000, data, _p("BIG"), (fmt, L, fam), {"k": "one", "fmt": fmt, "base": 0o1000, "hex": data.hex(), "name": "BIG"})
        return
    if k == "fmt-special":
        for label, data in special_images():
            for fmt in ("bk_wav", "bk_turbo_wav", "bin", "raw"):
                for base in (0o1000, 0o177776):
                    check_format(r, fmt, base, data, _p("SUM"), (fmt, label, base), {"k": "one", "fmt": fmt, "base": base, "hex": data.hex(), "name": "SUM"})
        return
    if k == "fmt-names":
        data = bytes(range(1, 20))
        for nm in names():
            for fmt in ("bk_wav", "bk_turbo_wav"):
                check_format(r, fmt, 0o2000, data, _p(nm), (fmt, "name", nm), {"k": "one", "fmt": fmt, "base": 0o2000, "hex": data.hex(), "name": nm})
            # through the directive: padding and default naming are done by the assembler
            text = "\t.link 2000\n\t.byte " + ", ".join("%o" % b for b in data) + "\nmake_wav \"t.wav\", \"%s\"\nmake_turbo_wav \"u.wav\", \"%s\"\n" % (nm, nm)
            run_cli(r, {"n.mac": text}, ".", ["n.mac"], {"t.wav": ("bk_wav", nm), "u.wav": ("bk_turbo_wav", nm)}, 0o2000, data, ("name-directive", nm))
        return
    if k == "one":
        data = bytes.fromhex(case["hex"])
        check_format(r, case["fmt"], case["base"], data, _p(case["name"]), None, case)
        return
    if k == "cli":
        lay = CLI_LAYOUTS[case["i"]]
        lay = lay + ("", IMG)[len(lay) - 4:]
        tree, cwd, argv, want = lay[:4]
        run_cli(r, tree, cwd, argv, want, 0o1000, lay[5], ("cli", case["i"]), stdin_text=lay[4])
        return
    if k == "cli-layout":
        # replay of one recorded layout
        want = None if case["want"] is None else {p: tuple(tuple(x) if isinstance(x, list) else x for x in v) for p, v in case["want"].items()}
        run_cli(r, case["tree"], case["cwd"], case["argv"], want, case.get("base", 0o1000), bytes.fromhex(case["image"]) if "image" in case else IMG,
                None, stdin_text=case.get("stdin", ""))
        return
    raise AssertionError("unknown case kind %r" % k)


def run_cli(r, tree, cwd, argv, want, base, image, key, stdin_text=""):
    out = driver.cli(argv, tree, cwd=cwd, keep=True, stdin_text=stdin_text)
    case = {"k": "cli-layout", "tree": tree, "cwd": cwd, "argv": argv, "stdin": stdin_text, "base": base, "image": image.hex(), "want": None if want is None else {p: list(v) if isinstance(v, tuple) else v for p, v in want.items()}}
    try:
        probs = []
        if want is None:
            # no output is well defined here; whatever happens, no existing file may be modified
            if out.modified() or out.deleted():
                probs.append(("sources-touched", "existing files changed: %s %s" % (out.modified(), out.deleted())))
            if out.internal_error or out.exit not in (0, 1):
                probs.append(("cli-exit", "exit status %r" % (out.exit,)))
            r.ran("ok" if not probs else "bad", key=key)
            for sig, what in probs[:2]:
                r.violation("cli:" + sig, what, case, "no existing file modified", sorted(out.created()))
            return
        if out.exit != 0:
            probs.append(("cli-exit", "exit status %r, stderr: %s" % (out.exit, out.stderr[-300:])))
        created = set(out.created())
        if "<stdout>" not in want and out.stdout:
            probs.append(("unexpected-stdout", "%d bytes were written to standard output although no output was directed there" % len(out.stdout)))
        for path, (fmt, nm) in want.items():
            if path == "<stdout>":
                p = judge_blob(fmt, out.stdout, base, image, None)
                if p:
                    probs.append((p[0], "standard output: %s" % p[1]))
                continue
            if path not in created:
                probs.append(("file-not-at-stated-path", "no file %s was written (created: %s)" % (path, sorted(created))))
                continue
            blob = driver.read_file(out.root, path)
            if isinstance(nm, tuple):
                name16 = nm[1].encode(nm[0]).ljust(16, b" ")
            else:
                name16 = _p(nm) if nm is not None else None
            p = judge_blob(fmt, blob, base, image, name16)
            if p:
                probs.append((p[0], "%s: %s" % (path, p[1])))
        extra = created - set(want) - {"keep"}
        if extra:
            probs.append(("unexpected-file", "files nobody asked for were written: %s" % sorted(extra)))
        if out.modified() or out.deleted():
            probs.append(("sources-touched", "existing files changed: %s %s" % (out.modified(), out.deleted())))
        r.ran("ok" if not probs else "bad", key=key)
        for sig, what in probs[:2]:
            r.violation("cli:" + sig, what, case, sorted(want), sorted(created))
    finally:
        import shutil
        shutil.rmtree(out.root, ignore_errors=True)
