"""C17 Diagnostics point at the culprit — E2 over planting positions (in-process assembly + bare-format CLI text)."""
import re
import shutil
from .. import driver, faults

ID = "C17"
LEVEL = "model_checking"
EXHAUSTIVE = True
CHUNK = 1
CASE_TIMEOUT = 600
RULE = ("every fault kind of the catalogue that has an unambiguous culprit token (52 kinds) planted at every statement slot of 4 base "
        "programs x 9 line prefixes (none, tab, two tabs, blanks, label+tab, blank+tab, tab between mnemonic and operand, non-ASCII comment "
        "line above, trailing comment) x 4 locations (main file, second linked file, included file, file included from the second linked "
        "file). Universal oracle for every span of every report: the file is one of the run's files, start <= end, both inside the file, "
        "1 <= line <= lines+1, 1 <= column <= expanded line length + 1. Specific oracle: the first span of the first error report names "
        "the planting file and the culprit token's line and column computed by an independent expander (a tab = 4 columns); for kinds "
        "with two defensible readings the column may be the statement start or the operand start. The same positions are read back from "
        "the text of --report-format=bare. state = (fault, slot, prefix, location); non-trivial = distinct state")
ASSUMPTIONS = ["culprit column of pdpmc/faults.py (natural reading of each message; DESIGN.md Appendix C)", "secondary spans are only checked by the universal oracle"]

BASES = [
    ["start:\tmov #start, r0", "\t.word 1, 2", "\tadd r1, r2", "lp:\tsob r3, lp", "\thalt"],
    ["\tnop", "\tnop"],
    ["a1 = 5", "\t.byte a1, 2", "\t.even", "\t.repeat 2 { inc r0 }", "l2:", "\t.word l2"],
    ["\t.ascii \"text; here\"", "\t.even", "\tjmp @#1000", "\tbigsym = 200000", "; comment only", "\tclr (r1)+"],
]
PREFIXES = [("none", "", ""), ("tab", "\t", ""), ("tabs2", "\t\t", ""), ("blanks", "   ", ""), ("label-tab", "pq%d:\t", ""), ("blank-tab", " \t", ""),
            ("inner-tab", "\t", "inner"), ("comment-above", "\t", "above"), ("trailing-comment", "\t", "trail")]
LOCATIONS = ["main", "second", "included", "included-from-second"]
EXTRA = [
    {"id": "imm-neg-sym-oob", "text": "mov #-bigsym, r0", "culprit": (0, "-bigsym"), "col": "strict", "needs": "bigsym"},
    {"id": "abs-neg-sym-oob", "text": "clr @#-bigsym", "culprit": (0, "-bigsym"), "col": "strict", "needs": "bigsym"},
    {"id": "imm-inv-sym-oob", "text": "mov #^Cbigsym, r0", "culprit": (0, "^Cbigsym"), "col": "strict", "needs": "bigsym"},
    {"id": "index-neg-sym-oob", "text": "mov -bigsym(r1), r0", "culprit": (0, "-bigsym"), "col": "strict", "needs": "bigsym"},
    {"id": "index-sum-oob", "text": "mov bigsym+2(r1), r0", "culprit": (0, "bigsym+2"), "col": "strict", "needs": "bigsym"},
    {"id": "index-deferred-sum-oob", "text": "clr @2+bigsym(r2)", "culprit": (0, "2+bigsym"), "col": "strict", "needs": "bigsym"},
    {"id": "late-comma-brace", "text": ".repeat 1 { .word 1, 2, }", "culprit": (0, ", }"), "col": "strict"},
    {"id": "late-comma-paren", "text": ".byte 1, 2, 3, )", "culprit": (0, ", )"), "col": "strict"},
    {"id": "late-comma-insn", "text": "mov r0, r1, }", "culprit": (0, ", }"), "col": "strict"},
    {"id": "word-second-oob", "text": ".word 1,\t200001", "culprit": (0, "200001"), "col": "strict"},
    {"id": "undef-after-tabs", "text": "mov\t#1,\tundefsym9", "culprit": (0, "undefsym9"), "col": "strict"},
]


def bound(tier):
    return "52 fault kinds x every slot of 4 base programs x 9 prefixes x 4 locations (quick: prefix and location rotate per slot so that every fault meets every prefix and every location; thorough: full product)"


def fault_list():
    out = []
    for e in faults.ERRORS:
        if e["culprit"] is None or e["id"] in ("assign-nothing", "blkb-no-operand", "trailing-comma"):
            continue   # these swallow the following line: their culprit depends on what follows
        out.append({"id": e["id"], "text": e["text"], "culprit": e["culprit"], "col": e["col"], "tree": e["tree"]})
    for e in EXTRA:
        out.append(dict(e, tree={}))
    return out


FAULTS = fault_list()


def cases(tier):
    for f in FAULTS:
        yield {"k": "fault", "id": f["id"]}


def expand_col(s):
    return sum(4 if ch == "\t" else 1 for ch in s) + 1


def build(f, bi, slot, prefix, loc, uid):
    """returns files, tree, planted file name, expected (line, strict col, alt col or None)"""
    pname, pre, mode = prefix
    pre = pre % uid if "%d" in pre else pre
    base = list(BASES[bi])
    if f.get("needs") == "bigsym" and not any("bigsym" in l for l in base):
        base.append("\tbigsym = 200000")
    frag = f["text"].split("\n")
    if mode == "inner":
        frag = [l.replace(" ", "\t", 1) for l in frag]
    lines = []
    pres = []
    for li, l in enumerate(frag):
        pre_l = (PREFIXES[[x[0] for x in PREFIXES].index(pname)][1] % (uid * 10 + li)) if "%d" in PREFIXES[[x[0] for x in PREFIXES].index(pname)][1] else pre
        pres.append(pre_l)
        lines.append(pre_l + l + ("\t; trailing 'comment' (r0)" if mode == "trail" else ""))
    above = ["\t; комментарий \u2713 с не-ASCII текстом"] if mode == "above" else []
    planted = base[:slot] + above + lines + base[slot:]
    text = "\n".join(planted) + "\n"
    k, sub = f["culprit"]
    line_no = slot + len(above) + k + 1
    src = lines[k]
    body = frag[k]
    idx = 0 if sub is None else body.index(sub.replace(" ", "\t", 1) if (mode == "inner" and sub not in body) else sub)
    pre = pres[k]
    col = expand_col(pre + body[:idx])
    alt = None
    if f["col"] == "stmt-or-operand":
        # statement start and the start of the first operand
        m = re.match(r"\S+[ \t]+", body)
        alt = [expand_col(pre), expand_col(pre + body[:m.end()]) if m else expand_col(pre)]
    tree = dict(f.get("tree") or {})
    if loc == "main":
        files = [("m.mac", text)]
        pfile = "m.mac"
    elif loc == "second":
        files = [("m.mac", "\tnop\nfirst::\tnop\n"), ("n.mac", text)]
        pfile = "n.mac"
    elif loc == "included":
        files = [("m.mac", "\tnop\n\t.include \"sub/inc.mac\"\n\tnop\n")]
        tree["sub/inc.mac"] = text
        pfile = "sub/inc.mac"
    else:
        files = [("m.mac", "\tnop\n"), ("n.mac", "\tnop\n\t.include \"sub/inc.mac\"\n")]
        tree["sub/inc.mac"] = text
        pfile = "sub/inc.mac"
    return files, tree, pfile, (line_no, col, alt), text


def universal(out, files, tree, root_rel):
    probs = []
    for sev, kind, spans in out.reports:
        for (fa, pa, fb, pb, n, code, _ra, _rb) in spans:
            if fa != fb:
                probs.append(("span-two-files", "%s: span starts in %s and ends in %s" % (kind, fa, fb)))
                continue
            rel = root_rel(fa)
            known = dict(files)
            known.update({k: v for k, v in tree.items() if isinstance(v, str)})
            if rel not in known:
                probs.append(("span-foreign-file", "%s: span names %s which is not a file of this run" % (kind, fa)))
                continue
            if known[rel] != code:
                probs.append(("span-wrong-file-text", "%s: span names %s but carries another file's text" % (kind, rel)))
                continue
            if not (0 <= pa <= pb <= len(code)):
                probs.append(("span-outside-file", "%s: span %d..%d outside 0..%d of %s" % (kind, pa, pb, len(code), rel)))
    return probs


def check(case, r, tier):
    if case["k"] == "one":
        f = [x for x in FAULTS if x["id"] == case["id"]][0]
        run_one(r, f, case["bi"], case["slot"], case["prefix"], case["loc"], 1)
        return
    f = [x for x in FAULTS if x["id"] == case["id"]][0]
    n = 0
    for bi, base in enumerate(BASES):
        for slot in range(len(base) + 1):
            if tier == "thorough":
                combos = [(p, l) for p in range(len(PREFIXES)) for l in range(len(LOCATIONS))]
            else:
                combos = [((n + j) % len(PREFIXES), (n // 2 + j) % len(LOCATIONS)) for j in (0, 4)] + [((n + 2) % len(PREFIXES), (n + 1) % len(LOCATIONS))]
            for p, l in combos:
                n += 1
                run_one(r, f, bi, slot, p, LOCATIONS[l], n)


def run_one(r, f, bi, slot, p, loc, uid):
    if f["id"] == "link-self" and loc.startswith("included"):
        return  # '.link' inside an included file is left open by C12
    if f["id"] in ("unterminated-string", "lonely-quote") and any('"' in l or "'" in l for l in BASES[bi][slot:]):
        return  # a later quote would terminate the string: the culprit is no longer unambiguous
    files, tree, pfile, (line, col, alt), text = build(f, bi, slot, PREFIXES[p], loc, uid)
    out = driver.assemble(files, tree=tree or None, keep=True)
    r.states += 1
    r.trans += 1
    case = {"k": "one", "id": f["id"], "bi": bi, "slot": slot, "prefix": p, "loc": loc}
    key = (f["id"], bi, slot, p, loc)
    root = None
    for sev, kind, spans in out.reports:
        for s in spans:
            if s[0].endswith("/" + pfile) or s[0].endswith("/m.mac") or s[0].endswith("/n.mac"):
                root = s[0][:-(len(pfile) if s[0].endswith("/" + pfile) else 5)]
                break
        if root:
            break

    def rel(path):
        return path[len(root):] if root and path.startswith(root) else path
    probs = []
    if out.status == "crash":
        r.ran(out.cls(), key=key)
        r.extra["runs_ending_in_internal_error"] += 1
        return
    probs += universal(out, files, tree, rel)
    errs = [rp for rp in out.positions() if rp[0] in ("error", "critical")]
    if out.status != "fail" or not errs:
        probs.append(("no-error-reported", "planted fault %s produced no error report (status %s)" % (f["id"], out.status)))
    else:
        sev, kind, spans = errs[0]
        fa, l1, c1, fb, l2, c2 = spans[0]
        if rel(fa) != pfile:
            probs.append(("wrong-file:" + loc, "first error names %s, the fault was planted in %s" % (rel(fa), pfile)))
        elif l1 != line:
            probs.append(("wrong-line", "first error at line %d, the culprit is on line %d (%s)" % (l1, line, f["id"])))
        elif f["col"] == "any":
            pass
        elif alt is not None:
            if c1 not in alt:
                probs.append(("wrong-column:" + PREFIXES[p][0], "first error at column %d, statement/operand start at %s (%s)" % (c1, alt, f["id"])))
        elif c1 != col:
            probs.append(("wrong-column:" + PREFIXES[p][0], "first error at column %d, the culprit token starts at column %d (%s)" % (c1, col, f["id"])))
        if (l2, c2) < (l1, c1):
            probs.append(("end-before-start", "span ends at %d:%d before it starts at %d:%d" % (l2, c2, l1, c1)))
        nlines = text.count("\n") + 1
        for rp in out.positions():
            for (fa, a1, b1, fb, a2, b2) in rp[2]:
                if rel(fa) == pfile and not (1 <= a1 <= nlines and 1 <= a2 <= nlines):
                    probs.append(("line-outside-file", "%s reports line %d/%d of a %d-line file" % (rp[1], a1, a2, nlines)))
    # the same position through the text of --report-format=bare (one run per fault/location pair is enough: slot 0 of each base)
    if slot == 0 and not probs and errs:
        cli_tree = dict(tree)
        cli_tree.update(dict(files))
        co = driver.cli([n for n, _t in files] + ["--report-format", "bare"], cli_tree, keep=True)
        try:
            m = re.search(r"^(.*?):(\d+):(\d+): Error: ", co.stdout.decode("utf-8", "replace"), re.M)
            if not m:
                probs.append(("bare-no-error-line", "no 'file:line:col: Error:' line in bare format output"))
            else:
                bl, bc = int(m.group(2)), int(m.group(3))
                sev, kind, spans = errs[0]
                if (bl, bc) != (spans[0][1], spans[0][2]) or not m.group(1).endswith(pfile):
                    probs.append(("bare-position-differs", "bare format prints %s:%d:%d, the span is %s:%d:%d" % (m.group(1), bl, bc, pfile, spans[0][1], spans[0][2])))
        finally:
            shutil.rmtree(co.root, ignore_errors=True)
    r.ran("ok" if not probs else "bad", key=key)
    seen = set()
    for sig, what in probs:
        if sig not in seen:
            seen.add(sig)
            r.violation("%s:%s" % (sig, f["id"]), what, case, {"line": line, "col": col, "alt": alt, "file": pfile}, [rp for rp in out.positions()][:2])
