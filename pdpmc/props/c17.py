"""C17 Diagnostics point at the culprit — E2 over planting positions (in-process assembly + bare-format CLI text)."""
import re
import shutil
from .. import driver, faults

ID = "C17"
LEVEL = "model_checking"
EXHAUSTIVE = True
CHUNK = 1
CASE_TIMEOUT = 600
RULE = ("every fault kind of the catalogue that has an unambiguous culprit token (52 kinds) planted at every statement slot of 4 base "
        "programs x 9 line prefixes (none, tab, two tabs, blanks, label+tab, blank+tab, tab between mnemonic and operand, non-ASCII comment "
        "line above, trailing comment) x 4 locations (main file, second linked file, included file, file included from the second linked "
        "file). Universal oracle for every span of every report: the file is one of the run's files, start <= end, both inside the file, "
        "1 <= line <= lines+1, 1 <= column <= expanded line length + 1. Specific oracle: the first span of the first error report names "
        "the planting file and the culprit token's line and column computed by an independent expander (a tab = 4 columns); for kinds "
        "with two defensible readings the column may be the statement start or the operand start. The same positions are read back from "
        "the text of --report-format=bare, and the default graphical format is parsed: every source line shown under a file name must be "
        "that line of that file and every highlight the text at that column (also for 64 diagnostics whose spans lie in two files: the report, graphical and bare, starts with the file of the culprit statement whatever the alphabetical order of the file names). A "
        "legal statement with the same mnemonic follows every planted fault (in the same and in a further linked file), and branch faults "
        "also come with forward targets. state = (fault, slot, prefix, location); non-trivial = distinct state")
ASSUMPTIONS = ["culprit column of pdpmc/faults.py (natural reading of each message; DESIGN.md Appendix C)", "secondary spans are only checked by the universal oracle"]

BASES = [
    ["start:\tmov #start, r0", "\t.word 1, 2", "\tadd r1, r2", "lp:\tsob r3, lp", "\thalt"],
    ["\tnop", "\tnop"],
    ["a1 = 5", "\t.byte a1, 2", "\t.even", "\t.repeat 2 { inc r0 }", "l2:", "\t.word l2"],
    ["\t.ascii \"text; here\"", "\t.even", "\tjmp @#1000", "\tbigsym = 200000", "; comment only", "\tclr (r1)+"],
]
PREFIXES = [("none", "", ""), ("tab", "\t", ""), ("tabs2", "\t\t", ""), ("blanks", "   ", ""), ("label-tab", "pq%d:\t", ""), ("blank-tab", " \t", ""),
            ("inner-tab", "\t", "inner"), ("comment-above", "\t", "above"), ("trailing-comment", "\t", "trail")]
LOCATIONS = ["main", "second", "included", "included-from-second"]
EXTRA = [
    {"id": "imm-neg-sym-oob", "text": "mov #-bigsym, r0", "culprit": (0, "-bigsym"), "col": "strict", "needs": "bigsym"},
    {"id": "abs-neg-sym-oob", "text": "clr @#-bigsym", "culprit": (0, "-bigsym"), "col": "strict", "needs": "bigsym"},
    {"id": "imm-inv-sym-oob", "text": "mov #^Cbigsym, r0", "culprit": (0, "^Cbigsym"), "col": "strict", "needs": "bigsym"},
    {"id": "index-neg-sym-oob", "text": "mov -bigsym(r1), r0", "culprit": (0, "-bigsym"), "col": "strict", "needs": "bigsym"},
    {"id": "index-sum-oob", "text": "mov bigsym+2(r1), r0", "culprit": (0, "bigsym+2"), "col": "strict", "needs": "bigsym"},
    {"id": "index-deferred-sum-oob", "text": "clr @2+bigsym(r2)", "culprit": (0, "2+bigsym"), "col": "strict", "needs": "bigsym"},
    {"id": "late-comma-brace", "text": ".repeat 1 { .word 1, 2, }", "culprit": (0, ", }"), "col": "strict"},
    {"id": "late-comma-paren", "text": ".byte 1, 2, 3, )", "culprit": (0, ", )"), "col": "strict"},
    {"id": "late-comma-insn", "text": "mov r0, r1, }", "culprit": (0, ", }"), "col": "strict"},
    {"id": "word-second-oob", "text": ".word 1,\t200001", "culprit": (0, "200001"), "col": "strict"},
    {"id": "undef-after-tabs", "text": "mov\t#1,\tundefsym9", "culprit": (0, "undefsym9"), "col": "strict"},
    # blanks, tabs, comments and line breaks in front of the culprit token
    {"id": "user-error-semicolon", "text": ".error ; stop here", "culprit": (0, None), "col": "strict"},
    {"id": "late-comma-spaced", "text": "mov r0, r1 , }", "culprit": (0, ", }"), "col": "strict"},
    {"id": "late-comma-tabbed", "text": "mov r0,\tr1\t, }", "culprit": (0, ", }"), "col": "strict"},
    {"id": "late-comma-first-spaced", "text": "mov r0  , }", "culprit": (0, ", }"), "col": "strict"},
    {"id": "rad50-code-spaced", "text": ".rad50 /abc/ <50>", "culprit": (0, "<50>"), "col": "strict"},
    {"id": "rad50-code-tabbed", "text": ".rad50 /abc/\t<77>/d/", "culprit": (0, "<77>"), "col": "strict"},
    {"id": "block-misplaced-meta", "text": ".blkb 1 { nop }", "culprit": (0, "{"), "col": "strict"},
    {"id": "block-misplaced-insn", "text": "clr r0 { nop }", "culprit": (0, "{"), "col": "strict"},
    {"id": "block-misplaced-lines", "text": ".blkb 2 {\nnop\nnop\n}", "culprit": (0, "{"), "col": "strict"},
    # the same branch faults with a target that is not known when the statement is visited
    {"id": "far-branch-fwd", "text": "br farl9", "culprit": (0, None), "col": "stmt-or-operand", "needs": "farl"},
    {"id": "far-bne-fwd", "text": "bne farl9+2", "culprit": (0, None), "col": "stmt-or-operand", "needs": "farl"},
    {"id": "sob-fwd-label", "text": "sob r1, farl9", "culprit": (0, None), "col": "stmt-or-operand", "needs": "farl"},
    {"id": "odd-branch-fwd", "text": "br oddl9", "culprit": (0, None), "col": "stmt-or-operand", "needs": "oddl"},
    {"id": "far-branch-sym", "text": "br fardist9", "culprit": (0, None), "col": "stmt-or-operand", "needs": "fardist"},
]
NEEDS = {"bigsym": ["\tbigsym = 200000"], "farl": ["\t.blkb 1000", "farl9:\tnop"], "oddl": ["\t.byte 0", "oddl9:\t.byte 0"], "fardist": ["\tfardist9 = . + 2000"]}
# a legal statement with the same mnemonic or directive, placed after the fault (same file) and in a further linked file
DECOYS = {"br": "br .", "bne": "bne .", "sob": "sob r2, .", "mov": "mov r2, r3", "clr": "clr r4", "emt": "emt 1", "trap": "trap 2", ".word": ".word 3", ".byte": ".byte 4, 5", ".ascii": ".ascii /ok/",
          ".asciz": ".asciz /o/", ".rad50": ".rad50 /abc/", ".blkb": ".blkb 2", ".blkw": ".blkw 1", ".repeat": ".repeat 1 { nop }", ".align": ".align 2", "jmp": "jmp (r1)", "inc": "inc r1", "add": "add r1, r2",
          "ldf": "ldf (r1), ac0", "mul": "mul r1, r3", "jsr": "jsr pc, (r1)", "xor": "xor r1, r2", "spl": "spl 1", "mark": "mark 1", "tst": "tst r0", "cmp": "cmp r0, r1", ".dword": ".dword 1", "insert_file": None}


def bound(tier):
    return "52 fault kinds x every slot of 4 base programs x 9 prefixes x 4 locations (quick: prefix and location rotate per slot so that every fault meets every prefix and every location; thorough: full product)"


def fault_list():
    out = []
    for e in faults.ERRORS:
        if e["culprit"] is None or e["id"] in ("assign-nothing", "blkb-no-operand", "trailing-comma"):
            continue   # these swallow the following line: their culprit depends on what follows
        out.append({"id": e["id"], "text": e["text"], "culprit": e["culprit"], "col": e["col"], "tree": e["tree"]})
    for e in EXTRA:
        out.append(dict(e, tree={}))
    return out


FAULTS = fault_list()


def cases(tier):
    for f in FAULTS:
        yield {"k": "fault", "id": f["id"]}
    yield {"k": "graphical"}


ANSI = re.compile(r"\x1b\[[0-9;]*[A-Za-z]")


def parse_graphical(text):
    """sections of the graphical report format: [{"file": path, "lines": [(number, shown text, [(terminal column, highlighted text)])]}]"""
    sections = []
    for raw in text.split("\n"):
        plain = ANSI.sub("", raw).replace("\x01", "").replace("\x02", "")
        m = re.match(r"^(?:Error|Warning|Critical error|Note)?\s*[Ii]n (\S.*?):(?: \[-W[\w-]+\])?$", plain)
        if m:
            sections.append({"file": m.group(1), "lines": []})
            continue
        m = re.match(r"^\x1b\[92m\s*(\d+)\x1b\[0m \x1b\[38;5;242m\u2502 \x1b\[38;5;11m(.*?)\x1b\[0m(.*)$", raw)
        if m and sections:
            # line number, bar, a gutter (brackets that join several spans), the source text, then every highlight as
            # 'go to column c' + the highlighted text
            gutter = m.group(2)
            parts = re.split(r"\x1b\[(\d+)G", m.group(3))
            shown = ANSI.sub("", parts[0]).replace("\x01", "").replace("\x02", "")
            hl = []
            for i in range(1, len(parts) - 1, 2):
                hl.append((int(parts[i]) - len(gutter), ANSI.sub("", parts[i + 1]).replace("\x01", "").replace("\x02", "")))
            sections[-1]["lines"].append((int(m.group(1)), shown, hl))
    return sections


def graphical_probs(stderr, sources, root):
    """every source line shown under a file name is that line of that file (a tab shown as four blanks), every highlight is the
    text of that line at that column"""
    probs = []
    secs = parse_graphical(stderr)
    for sec in secs:
        rel = sec["file"][len(root) + 1:] if sec["file"].startswith(root) else sec["file"]
        if rel not in sources:
            probs.append(("graphical-foreign-file", "a section is headed %s, which is not a file of this run" % sec["file"]))
            continue
        flines = sources[rel].split("\n")
        for n, shown, hl in sec["lines"]:
            if not 1 <= n <= len(flines):
                probs.append(("graphical-line-outside-file", "line %d shown under %s, which has %d lines" % (n, rel, len(flines))))
                continue
            want = flines[n - 1].replace("\t", "    ")
            if shown.rstrip() != want.rstrip():
                probs.append(("graphical-wrong-line-text", "under %s, line %d is shown as %r; line %d of that file is %r" % (rel, n, shown, n, want)))
                continue
            for col, txt in hl:
                if want[col - 9:col - 9 + len(txt)] != txt and txt.strip():
                    probs.append(("graphical-wrong-highlight", "under %s line %d the highlight at column %d is %r, the line has %r there" % (rel, n, col - 8, txt, want[col - 9:col - 9 + len(txt)])))
    return probs, secs


def expand_col(s):
    return sum(4 if ch == "\t" else 1 for ch in s) + 1


def build(f, bi, slot, prefix, loc, uid):
    """returns files, tree, planted file name, expected (line, strict col, alt col or None)"""
    pname, pre, mode = prefix
    pre = pre % uid if "%d" in pre else pre
    base = list(BASES[bi])
    if f.get("needs") and not any(NEEDS[f["needs"]][-1].strip().split()[0].rstrip(":") in l for l in base):
        base += NEEDS[f["needs"]]
    decoy = DECOYS.get(f["text"].split()[0].lower()) if " " in f["text"] or "\t" in f["text"] else None
    if decoy:
        base.append("\t" + decoy)
    frag = f["text"].split("\n")
    if mode == "inner":
        frag = [l.replace(" ", "\t", 1) for l in frag]
    lines = []
    pres = []
    for li, l in enumerate(frag):
        pre_l = (PREFIXES[[x[0] for x in PREFIXES].index(pname)][1] % (uid * 10 + li)) if "%d" in PREFIXES[[x[0] for x in PREFIXES].index(pname)][1] else pre
        pres.append(pre_l)
        lines.append(pre_l + l + ("\t; trailing 'comment' (r0)" if mode == "trail" else ""))
    above = ["\t; комментарий \u2713 с не-ASCII текстом"] if mode == "above" else []
    planted = base[:slot] + above + lines + base[slot:]
    text = "\n".join(planted) + "\n"
    k, sub = f["culprit"]
    line_no = slot + len(above) + k + 1
    src = lines[k]
    body = frag[k]
    idx = 0 if sub is None else body.index(sub.replace(" ", "\t", 1) if (mode == "inner" and sub not in body) else sub)
    pre = pres[k]
    col = expand_col(pre + body[:idx])
    alt = None
    if f["col"] == "stmt-or-operand":
        # statement start and the start of the first operand
        m = re.match(r"\S+[ \t]+", body)
        alt = [expand_col(pre), expand_col(pre + body[:m.end()]) if m else expand_col(pre)]
    tree = dict(f.get("tree") or {})
    zfile = [("z.mac", "\t" + decoy + "\n\t.even\n")] if decoy else []
    if loc == "main":
        files = [("m.mac", text)] + zfile
        pfile = "m.mac"
    elif loc == "second":
        files = [("m.mac", "\tnop\nfirst::\tnop\n"), ("n.mac", text)] + zfile
        pfile = "n.mac"
    elif loc == "included":
        files = [("m.mac", "\tnop\n\t.include \"sub/inc.mac\"\n\tnop\n")]
        tree["sub/inc.mac"] = text
        pfile = "sub/inc.mac"
    else:
        files = [("m.mac", "\tnop\n"), ("n.mac", "\tnop\n\t.include \"sub/inc.mac\"\n")]
        tree["sub/inc.mac"] = text
        pfile = "sub/inc.mac"
    return files, tree, pfile, (line_no, col, alt), text


def universal(out, files, tree, root_rel):
    probs = []
    for sev, kind, spans in out.reports:
        for (fa, pa, fb, pb, n, code, _ra, _rb) in spans:
            if fa != fb:
                probs.append(("span-two-files", "%s: span starts in %s and ends in %s" % (kind, fa, fb)))
                continue
            rel = root_rel(fa)
            known = dict(files)
            known.update({k: v for k, v in tree.items() if isinstance(v, str)})
            if rel not in known:
                probs.append(("span-foreign-file", "%s: span names %s which is not a file of this run" % (kind, fa)))
                continue
            if known[rel] != code:
                probs.append(("span-wrong-file-text", "%s: span names %s but carries another file's text" % (kind, rel)))
                continue
            if not (0 <= pa <= pb <= len(code)):
                probs.append(("span-outside-file", "%s: span %d..%d outside 0..%d of %s" % (kind, pa, pb, len(code), rel)))
    return probs


TWO_FILE = []
for _i in range(0, 5):
    for _j in range(0, 7):
        _a = "".join("\tnop\n" for _ in range(_i)) + "dupx::\tnop\n\tmov #1, r0\n"
        _b = "first:\tnop\n" + "".join("\thalt\n" for _ in range(_j)) + "dupx::\tclr r0\n\tnop\n"
        TWO_FILE.append(("dup-export-%d-%d" % (_i, _j), [("a.mac", _a), ("b.mac", _b)], {}, 2))
for _i in range(0, 4):
    TWO_FILE.append(("link-twice-%d" % _i, [("a.mac", "\t.link 2000\n\tnop\n"), ("b.mac", "".join("\tnop\n" for _ in range(_i + 3)) + "\t.link 3000\n")], {}, 2))
    TWO_FILE.append(("dup-export-include-%d" % _i, [("a.mac", "".join("\tnop\n" for _ in range(_i)) + "\t.include \"h.mac\"\n\tnop\ndupy::\tnop\n")],
                     {"h.mac": "\tnop\n\tnop\n\tnop\n\tnop\n\tnop\ndupy::\thalt\n"}, 2))
    TWO_FILE.append(("dup-label-one-file-%d" % _i, [("a.mac", "".join("\tnop\n" for _ in range(_i)) + "dupz:\tnop\n\tnop\ndupz:\tnop\n")], {}, 1))
    TWO_FILE.append(("undefined-in-second-%d" % _i, [("a.mac", "\tnop\n"), ("b.mac", "".join("\tnop\n" for _ in range(_i + 4)) + "\tclr nosuch\n")], {}, 1))


# the file whose statement is the culprit (the later of two conflicting statements): the report starts with that file,
# whatever the alphabetical order of the file names is
CULPRIT_FILE = {"dup-export": "b.mac", "link-twice": "b.mac", "dup-export-include": "a.mac", "dup-export-swapped": "a.mac", "link-twice-swapped": "a.mac", "dup-export-include-z": "z.mac"}
for _i in range(0, 3):
    TWO_FILE.append(("dup-export-swapped-%d" % _i, [("b.mac", "".join("\tnop\n" for _ in range(_i)) + "dupx::\tnop\n"), ("a.mac", "first:\tnop\ndupx::\tclr r0\n")], {}, 2))
    TWO_FILE.append(("link-twice-swapped-%d" % _i, [("b.mac", "\t.link 2000\n\tnop\n"), ("a.mac", "".join("\tnop\n" for _ in range(_i + 1)) + "\t.link 3000\n")], {}, 2))
    TWO_FILE.append(("dup-export-include-z-%d" % _i, [("z.mac", "".join("\tnop\n" for _ in range(_i)) + "\t.include \"h.mac\"\n\tnop\ndupy::\tnop\n")],
                     {"h.mac": "\tnop\n\tnop\ndupy::\thalt\n"}, 2))


def check(case, r, tier):
    if case["k"] in ("graphical", "graphical-one"):
        for name, files, tree, nfiles in TWO_FILE:
            if case["k"] == "graphical-one" and name != case["name"]:
                continue
            cli_tree = dict(tree)
            cli_tree.update(dict(files))
            co = driver.cli([n for n, _t in files] + ["-o", "x.bin"], cli_tree, keep=True)
            try:
                r.states += 1
                r.trans += 1
                probs, secs = graphical_probs(co.stderr, {k2: v for k2, v in cli_tree.items() if isinstance(v, str)}, co.root)
                if co.exit != 1 or not secs:
                    probs.append(("graphical-no-report", "exit %r and %d sections" % (co.exit, len(secs))))
                elif len(set(sec["file"] for sec in secs)) < nfiles:
                    probs.append(("graphical-missing-file-section", "the diagnostic has spans in %d files, sections are shown for %s" % (nfiles, sorted(set(sec["file"] for sec in secs)))))
                want_first = CULPRIT_FILE.get(name.rsplit("-", 1)[0])
                if want_first and secs and not probs and not secs[0]["file"].endswith("/" + want_first):
                    probs.append(("graphical-starts-with-other-file", "the culprit statement is in %s, the report starts with %s" % (want_first, secs[0]["file"].rsplit("/", 1)[-1])))
                if want_first and not probs:
                    cb = driver.cli([n for n, _t in files] + ["-o", "x.bin", "--report-format", "bare"], cli_tree, keep=True)
                    try:
                        m = re.search(r"^(.*?):(\d+):(\d+): Error: ", cb.stdout.decode("utf-8", "replace"), re.M)
                        if not m or not m.group(1).endswith("/" + want_first):
                            probs.append(("bare-starts-with-other-file", "the culprit statement is in %s, the bare report says %s" % (want_first, m.group(0) if m else None)))
                    finally:
                        shutil.rmtree(cb.root, ignore_errors=True)
                r.ran("ok" if not probs else "bad", key=("graphical", name))
                seen = set()
                for sig, what in probs:
                    if sig not in seen:
                        seen.add(sig)
                        r.violation("%s:%s" % (sig, name.rsplit("-", 1)[0].rstrip("-0123456789")), what, {"k": "graphical-one", "name": name}, None, co.stderr[-600:])
            finally:
                shutil.rmtree(co.root, ignore_errors=True)
        return
    if case["k"] == "one":
        f = [x for x in FAULTS if x["id"] == case["id"]][0]
        run_one(r, f, case["bi"], case["slot"], case["prefix"], case["loc"], 1)
        return
    f = [x for x in FAULTS if x["id"] == case["id"]][0]
    n = 0
    for bi, base in enumerate(BASES):
        for slot in range(len(base) + 1):
            if tier == "thorough":
                combos = [(p, l) for p in range(len(PREFIXES)) for l in range(len(LOCATIONS))]
            else:
                combos = [((n + j) % len(PREFIXES), (n // 2 + j) % len(LOCATIONS)) for j in (0, 4)] + [((n + 2) % len(PREFIXES), (n + 1) % len(LOCATIONS))]
            for p, l in combos:
                n += 1
                run_one(r, f, bi, slot, p, LOCATIONS[l], n)


def run_one(r, f, bi, slot, p, loc, uid):
    if f["id"] == "link-self" and loc.startswith("included"):
        return  # '.link' inside an included file is left open by C12
    if f["id"] in ("unterminated-string", "lonely-quote") and any('"' in l or "'" in l for l in BASES[bi][slot:]):
        return  # a later quote would terminate the string: the culprit is no longer unambiguous
    files, tree, pfile, (line, col, alt), text = build(f, bi, slot, PREFIXES[p], loc, uid)
    out = driver.assemble(files, tree=tree or None, keep=True)
    r.states += 1
    r.trans += 1
    case = {"k": "one", "id": f["id"], "bi": bi, "slot": slot, "prefix": p, "loc": loc}
    key = (f["id"], bi, slot, p, loc)
    root = None
    for sev, kind, spans in out.reports:
        for s in spans:
            if s[0].endswith("/" + pfile) or s[0].endswith("/m.mac") or s[0].endswith("/n.mac"):
                root = s[0][:-(len(pfile) if s[0].endswith("/" + pfile) else 5)]
                break
        if root:
            break

    def rel(path):
        return path[len(root):] if root and path.startswith(root) else path
    probs = []
    if out.status == "crash":
        r.ran(out.cls(), key=key)
        r.extra["runs_ending_in_internal_error"] += 1
        return
    probs += universal(out, files, tree, rel)
    errs = [rp for rp in out.positions() if rp[0] in ("error", "critical")]
    if out.status != "fail" or not errs:
        probs.append(("no-error-reported", "planted fault %s produced no error report (status %s)" % (f["id"], out.status)))
    else:
        sev, kind, spans = errs[0]
        fa, l1, c1, fb, l2, c2 = spans[0]
        if rel(fa) != pfile:
            probs.append(("wrong-file:" + loc, "first error names %s, the fault was planted in %s" % (rel(fa), pfile)))
        elif l1 != line:
            probs.append(("wrong-line", "first error at line %d, the culprit is on line %d (%s)" % (l1, line, f["id"])))
        elif f["col"] == "any":
            pass
        elif alt is not None:
            if c1 not in alt:
                probs.append(("wrong-column:" + PREFIXES[p][0], "first error at column %d, statement/operand start at %s (%s)" % (c1, alt, f["id"])))
        elif c1 != col:
            probs.append(("wrong-column:" + PREFIXES[p][0], "first error at column %d, the culprit token starts at column %d (%s)" % (c1, col, f["id"])))
        if (l2, c2) < (l1, c1):
            probs.append(("end-before-start", "span ends at %d:%d before it starts at %d:%d" % (l2, c2, l1, c1)))
        nlines = text.count("\n") + 1
        for rp in out.positions():
            for (fa, a1, b1, fb, a2, b2) in rp[2]:
                if rel(fa) == pfile and not (1 <= a1 <= nlines and 1 <= a2 <= nlines):
                    probs.append(("line-outside-file", "%s reports line %d/%d of a %d-line file" % (rp[1], a1, a2, nlines)))
    # the same position through the text of --report-format=bare (one run per fault/location pair is enough: slot 0 of each base)
    if slot == 0 and not probs and errs:
        cli_tree = dict(tree)
        cli_tree.update(dict(files))
        co = driver.cli([n for n, _t in files] + ["--report-format", "bare"], cli_tree, keep=True)
        try:
            m = re.search(r"^(.*?):(\d+):(\d+): Error: ", co.stdout.decode("utf-8", "replace"), re.M)
            if not m:
                probs.append(("bare-no-error-line", "no 'file:line:col: Error:' line in bare format output"))
            else:
                bl, bc = int(m.group(2)), int(m.group(3))
                sev, kind, spans = errs[0]
                if (bl, bc) != (spans[0][1], spans[0][2]) or not m.group(1).endswith(pfile):
                    probs.append(("bare-position-differs", "bare format prints %s:%d:%d, the span is %s:%d:%d" % (m.group(1), bl, bc, pfile, spans[0][1], spans[0][2])))
        finally:
            shutil.rmtree(co.root, ignore_errors=True)
        # and through the default graphical format: every line shown is that line of the file it is shown under, the first
        # highlighted line is the culprit's line in the planting file
        co = driver.cli([n for n, _t in files], cli_tree, keep=True)
        try:
            gp, secs = graphical_probs(co.stderr, {k2: v for k2, v in cli_tree.items() if isinstance(v, str)}, co.root)
            probs += gp
            marked = [(sec["file"], n) for sec in secs for (n, _shown, hl) in sec["lines"] if hl]
            if not marked:
                probs.append(("graphical-no-highlight", "no highlighted source line in the graphical report"))
            elif not any(fl.endswith("/" + pfile) and n == errs[0][2][0][1] for fl, n in marked):
                # (spans of one file are shown in line order, so the culprit need not be the first highlight)
                probs.append(("graphical-position-differs", "the graphical report highlights %s, the first span is %s:%d" % (sorted(set((fl.rsplit("/", 1)[-1], n) for fl, n in marked)), pfile, errs[0][2][0][1])))
        finally:
            shutil.rmtree(co.root, ignore_errors=True)
    r.ran("ok" if not probs else "bad", key=key)
    seen = set()
    for sig, what in probs:
        if sig not in seen:
            seen.add(sig)
            r.violation("%s:%s" % (sig, f["id"]), what, case, {"line": line, "col": col, "alt": alt, "file": pfile}, [rp for rp in out.positions()][:2])
