"""C05 Expression values follow the documented arithmetic — E1 over trees, exhaustive to 3 infix operators."""
import itertools
from .. import batch, driver
from ..ref import expr as ref
from ..ref import rad50

ID = "C05"
LEVEL = "exploration"
EXHAUSTIVE = True
CHUNK = 1
CASE_TIMEOUT = 900
RULE = ("complete enumeration of what the shunting loop can distinguish: every infix operator sequence of length 1-3 (12+144+1728) x "
        "every tree shape (1,2,5) x {fully bracketed, minimally bracketed by the reference precedence} x 3 bracket styles x 3 leaf "
        "tuples (negative operands so floor != truncation); every prefix operator in every grammatical position of every 2-operator tree; "
        "6-operator flat and right-nested spines for all 144 operator pairs; every literal spelling x boundary values; 8/9 rejection; "
        "every 1-2 operator tree whose leaves repeat an operand (x+x, x*y-x), also with every leaf a symbol assigned from a symbol that is defined below the statement (a bare unknown when visited); "
        "every 2-operator tree with '.' among its leaves inside '.repeat 3 {...}' (one token evaluated at three addresses); leaf regimes: constants, symbols defined before, symbols defined after, address-valued (labels, '.') with the link base settled "
        "first / last / defaulted. Values are read back through .dword or four 16-bit slices and compared with pdpmc/ref/expr.py; trees "
        "whose reference value is an error must fail. Non-trivial = distinct (regime, expression text) pairs")
ASSUMPTIONS = ["reference evaluator pdpmc/ref/expr.py written from the documented semantics (vectors in selftest)",
               "a prefix operator directly after an infix operator is a syntax error in this grammar and is rendered bracketed",
               "'^' is never followed by a caret-form token"]
TUPLES = [(7, -3, 2, 5), (-13, 4, 3, 2), (100, 7, -2, 3)]
STYLES = ["(", "<", "^"]
MODES_Q = ["const", "before", "after", "addr-pre", "addr-post", "addr-default"]
B = 300


def bound(tier):
    return "infix sequences <= 3 complete (all shapes, renderings, styles, tuples) in regime const; other regimes: %s; spines depth 6" % (
        "complete" if tier == "thorough" else "sequences <= 2 complete, length 3 with one leaf tuple and minimal rendering")


def has_op(t, op):
    if t[0] == "bin":
        return t[1] == op or has_op(t[2], op) or has_op(t[3], op)
    if t[0] in ("un",):
        return has_op(t[2], op)
    if t[0] == "grp":
        return has_op(t[1], op)
    return False


def wrap(text, style, t):
    if style == "(":
        return "(" + text + ")"
    if style == "<":
        return "< " + text + " >"
    d = "?" if has_op(t, "/") or "/" in text else "/"
    return "^%s %s %s" % (d, text, d)


def render(t, leaf, style, full, leading=True):
    """leaf: function index -> text. Returns expression text for tree t."""
    k = t[0]
    if k == "leaf":
        return leaf(t[1])
    if k == "lit":
        return t[1]
    if k == "grp":
        return wrap(render(t[1], leaf, style, full, True), style, t[1])
    if k == "un":
        x = t[2]
        inner = render(x, leaf, style, full, False) if x[0] in ("leaf", "grp") else wrap(render(x, leaf, style, full, True), style, x)
        s = t[1] + (" " if t[1] == "^C" or not inner[0].isalnum() or True else "") + inner
        return s if leading else wrap(s, style, t)
    op, l, r = t[1], t[2], t[3]

    def child(c, right):
        if c[0] == "bin":
            need = full or ref.TIER[c[1]] < ref.TIER[op] or (ref.TIER[c[1]] == ref.TIER[op] and right)
            s = render(c, leaf, style, full, True if need else (leading and not right))
            return wrap(s, style, c) if need else s
        return render(c, leaf, style, full, leading and not right)
    return child(l, False) + " " + op + " " + child(r, True)


def lit_text(v):
    return ("-%o" % -v) if v < 0 else "%o" % v


def observe(text, v):
    """statement reading back expression `text` whose reference value is v -> (statement, expected bytes)"""
    if -2 ** 31 <= v < 2 ** 31:
        u = v % 2 ** 32
        hi, lo = u >> 16, u & 0xFFFF
        return ".dword " + text, bytes([hi & 255, hi >> 8, lo & 255, lo >> 8])
    parts, exp = [], b""
    for k in range(4):
        parts.append("<< %s > _ -%o> & 177777" % (text, 16 * k) if k else "< %s > & 177777" % text)
        w = (v >> (16 * k)) & 0xFFFF
        exp += bytes([w & 255, w >> 8])
    return ".word " + ", ".join(parts), exp


# symbols assigned address-valued expressions *before* the labels they mention exist (lazy, polynomial-valued)
ADDR_PREFIX = "sa = la + 6\nsb = lb - 1\nsc = lc\nla: .blkb 3\nlb: .blkb 2\nlc: .byte 0\n"
ADDR_PREFIX_BYTES = b"\x00" * 6


def make_item(tag, tree, mode, style, full, tup, uid):
    """returns ('good', key, text, expected) | ('bad', key, text)"""
    n_leaves = 4
    if mode.startswith("addr"):
        variant = uid % 4
        base = 0o1000

        def leaf(i):
            if variant == 0:
                return ["la", "lb", ".", "lc"][i]
            if variant == 1:
                return ["lb", lit_text(tup[1]), ".", lit_text(tup[3])][i]
            if variant == 2:
                return ["sa", "sb", ".", "sc"][i]
            return ["sb", lit_text(tup[1]), "sa", lit_text(tup[3])][i]
        text = render(tree, leaf, style, full)

        def envof(addr):
            return [[base, base + 3, addr, base + 5], [base + 3, tup[1], addr, tup[3]],
                    [base + 6, base + 2, addr, base + 5], [base + 2, tup[1], base + 6, tup[3]]][variant]

        def expected(addr, want_stmt=False):
            return ref.evaluate(tree, envof(addr))
        # error-ness and the choice of read-back do not depend on '.' for the alphabets used here except through size
        try:
            ref.bounded_after_error(tree, envof(base + 6))
            v0 = expected(base + 6)
        except ref.TooBig:
            return None
        except ref.RefError:
            return ("bad", (tag, mode, text), text_with_mode(".word " + text, mode, [], tup))
        big = not (-2 ** 31 <= v0 < 2 ** 31)
        if big and uses_dot(tree) and variant != 3:
            return None  # the read-back form would depend on the address; skipped (counted as not generated)

        def exp_bytes(addr):
            try:
                v = expected(addr)
            except (ref.RefError, ref.TooBig):
                return b"?"
            if big != (not (-2 ** 31 <= v < 2 ** 31)):
                return b"?"
            return observe(text, v)[1]
        stmt = observe(text, v0)[0]
        return ("good", (tag, mode, text), stmt, exp_bytes)
    env = list(tup)
    if mode == "chain":
        # every leaf is a symbol assigned from another symbol that is defined only below the statement: when the statement is
        # visited the leaf is a bare unknown (not yet a number, not yet a polynomial)
        names = ["s%dx%d" % (uid, i) for i in range(n_leaves)]
        text = render(tree, lambda i: names[i], style, full)
        defs = (["%s = c%s" % (names[i], names[i]) for i in used_leaves(tree)], ["c%s = %s" % (names[i], lit_text(tup[i])) for i in used_leaves(tree)])
    elif mode == "const":
        text = render(tree, lambda i: lit_text(tup[i]), style, full)
        defs = []
    else:
        names = ["s%dx%d" % (uid, i) for i in range(n_leaves)]
        text = render(tree, lambda i: names[i], style, full)
        defs = ["%s = %s" % (names[i], lit_text(tup[i])) for i in used_leaves(tree)]
    try:
        ref.bounded_after_error(tree, env)
        v = ref.evaluate(tree, env)
    except ref.TooBig:
        return None
    except ref.RefError:
        return ("bad", (tag, mode, text), text_with_mode(".word " + text, mode, defs, tup))
    stmt, exp = observe(text, v)
    return ("good", (tag, mode, text), text_with_mode(stmt, mode, defs, tup), exp)


def text_with_mode(stmt, mode, defs, tup):
    if mode == "chain":
        return "\n".join(defs[0] + [stmt] + defs[1])
    if mode == "before":
        return "\n".join(defs + [stmt])
    if mode == "after":
        return "\n".join([stmt] + defs)
    return stmt


def used_leaves(t):
    if t[0] == "leaf":
        return [t[1]]
    if t[0] == "bin":
        return sorted(set(used_leaves(t[2]) + used_leaves(t[3])))
    if t[0] == "un":
        return used_leaves(t[2])
    if t[0] == "grp":
        return used_leaves(t[1])
    return []


def relabel(t, assign):
    if t[0] == "leaf":
        return ("leaf", assign[t[1]])
    return ("bin", t[1], relabel(t[2], assign), relabel(t[3], assign))


def uses_dot(t):
    return 2 in used_leaves(t)


def cases(tier):
    for mode in MODES_Q:
        for n in (1, 2, 3):
            for first in ref.INFIX:
                yield {"k": "seq", "mode": mode, "n": n, "first": first}
        for p in ref.PREFIX:
            yield {"k": "prefix", "mode": mode, "p": p}
        for o1 in ref.INFIX:
            yield {"k": "spine", "mode": mode, "o1": o1}
    yield {"k": "literals"}
    yield {"k": "bad-digits"}
    for first in ref.INFIX:
        yield {"k": "in-repeat", "first": first}
    for mode in MODES_Q + ["chain"]:
        for first in ref.INFIX:
            yield {"k": "repeated-leaf", "mode": mode, "first": first}


def run_items(items, r, mode):
    good = [(it[1], it[2], it[3]) for it in items if it and it[0] == "good"]
    bad = [it for it in items if it and it[0] == "bad"]
    if mode.startswith("addr"):
        prefix = (".link 1000\n" if mode == "addr-pre" else "") + ADDR_PREFIX
        suffix = ".link 1000\n" if mode == "addr-post" else ""
        for i in range(0, len(good), B):
            batch.run_valid_batch(good[i:i + B], r, ID, prefix=prefix, suffix=suffix, prefix_bytes=ADDR_PREFIX_BYTES, start=0o1000,
                                  describe=lambda it: {"family": mode})
        for _b, key, text in bad:
            full = prefix + text + "\n" + suffix
            batch.expect_error(full, r, key, {"kind": "error", "text": full})
    else:
        for i in range(0, len(good), B):
            batch.run_valid_batch(good[i:i + B], r, ID, describe=lambda it: {"family": mode})
        for _b, key, text in bad:
            batch.expect_error(text + "\n", r, key, {"kind": "error", "text": text + "\n"})


def check(case, r, tier):
    k = case.get("k") or case.get("kind")
    if k == "single":
        return batch.replay_single(case, r)
    if k == "error":
        return batch.replay_error(case, r)
    thorough = tier == "thorough"
    if k == "seq":
        mode, n = case["mode"], case["n"]
        reduced = (mode != "const") and n == 3 and not thorough
        items, uid = [], 0
        for rest in itertools.product(ref.INFIX, repeat=n - 1):
            ops = [case["first"]] + list(rest)
            for si, shape in enumerate(ref.shapes(n)):
                tree = ref.instantiate(shape, ops)
                for full in ((False,) if reduced else (True, False)):
                    for style in ((STYLES[(si + len(items)) % 3],) if reduced else STYLES):
                        for tup in (TUPLES[:1] if reduced else TUPLES):
                            uid += 1
                            items.append(make_item("seq", tree, mode, style, full, tup, uid))
            # the flat sequence itself must read the way the reference precedence climbs it
            flat = ref.climb(ops, [("leaf", i) for i in range(n + 1)])
            for tup in TUPLES:
                uid += 1
                items.append(make_item("flat", flat, mode, "(", False, tup, uid))
        run_items(items, r, mode)
    elif k == "prefix":
        mode, p = case["mode"], case["p"]
        items, uid = [], 0
        for o1, o2 in itertools.product(ref.INFIX, repeat=2):
            for shape in ref.shapes(2):
                base_tree = ref.instantiate(shape, [o1, o2])
                variants = []
                # leading position: the prefix applies to the first primary only
                variants.append(apply_prefix_leading(base_tree, p))
                # leading inside each bracket group: wrap each operand / subtree in an explicit group with the prefix on its first primary
                variants.append(("bin", base_tree[1], ("grp", ("un", p, base_tree[2] if base_tree[2][0] == "leaf" else ("grp", base_tree[2]))), base_tree[3]))
                variants.append(("bin", base_tree[1], base_tree[2], ("grp", ("un", p, base_tree[3] if base_tree[3][0] == "leaf" else ("grp", base_tree[3])))))
                variants.append(("un", p, ("grp", base_tree)))
                for tree in variants:
                    for style in STYLES:
                        for tup in TUPLES[:2]:
                            uid += 1
                            items.append(make_item("prefix", tree, mode, style, False, tup, uid))
        run_items(items, r, mode)
    elif k == "spine":
        mode, o1 = case["mode"], case["o1"]
        items, uid = [], 0
        small = [(3, 2, 1, 2), (-5, 1, 2, 1)]
        for o2 in ref.INFIX:
            for depth in (4, 5, 6):
                ops = [o1 if i % 2 == 0 else o2 for i in range(depth)]
                leaves = [("leaf", i % 4) for i in range(depth + 1)]
                flat = ref.climb(ops, leaves)
                right = leaves[-1]
                for i in range(depth - 1, -1, -1):
                    right = ("bin", ops[i], leaves[i], right)
                left = leaves[0]
                for i in range(depth):
                    left = ("bin", ops[i], left, leaves[i + 1])
                for tup in small:
                    uid += 1
                    items.append(make_item("spine-flat", flat, mode, "(", False, tup, uid))
                    for style in STYLES:
                        uid += 1
                        items.append(make_item("spine-right", right, mode, style, True, tup, uid))
                        uid += 1
                        items.append(make_item("spine-left", left, mode, style, True, tup, uid))
        run_items(items, r, mode)
    elif k == "repeated-leaf":
        # one operand standing in several places of one expression ('x + x', 'x * y - x'): trees of 1-2 operators whose leaves are
        # drawn with repetition from three operands
        mode = case["mode"]
        items, uid = [], 0
        for n in (1, 2):
            for rest in itertools.product(ref.INFIX, repeat=n - 1):
                ops = [case["first"]] + list(rest)
                for shape in ref.shapes(n):
                    tree0 = ref.instantiate(shape, ops)
                    for assign in itertools.product((0, 1, 2), repeat=n + 1):
                        if len(set(assign)) == n + 1:
                            continue
                        tree = relabel(tree0, assign)
                        for tup in (TUPLES if thorough else TUPLES[:1]):
                            for vary in range(4 if mode.startswith("addr") else 1):
                                uid += 1
                                while mode.startswith("addr") and uid % 4 != vary:
                                    uid += 1
                                items.append(make_item("rep", tree, mode, STYLES[uid % 3], False, tup, uid))
        run_items(items, r, mode)
    elif k == "in-repeat":
        # the same expression token evaluated at successive addresses: '.repeat 3 { .dword e }' with '.' among the leaves
        base = 0o1000
        for o2 in ref.INFIX:
            for shape in ref.shapes(2):
                tree = ref.instantiate(shape, [case["first"], o2])
                for style in STYLES:
                    for full in (True, False):
                        leaves = {0: ".", 1: "3", 2: "lb"}
                        text = render(tree, lambda i: leaves[i], style, full)
                        vals = []
                        try:
                            for it in range(3):
                                env = [base + 6 + 4 * it, 3, base + 3, 0]
                                ref.bounded_after_error(tree, env)
                                v = ref.evaluate(tree, env)
                                if not -2 ** 31 <= v < 2 ** 31:
                                    raise ref.TooBig()
                                vals.append(v)
                        except (ref.RefError, ref.TooBig):
                            continue
                        want = ADDR_PREFIX_BYTES + b"".join(observe(text, v)[1] for v in vals)
                        prog = ".link 1000\n" + ADDR_PREFIX + ".repeat 3 { .dword %s }\n" % text
                        out = driver.assemble([("r.mac", prog)])
                        okk = out.status == "ok" and out.code == want
                        r.ran("ok" if okk else out.cls(), key=("in-repeat", text))
                        if not okk:
                            sig, what = batch.classify_mismatch(out, want)
                            r.violation(sig + ":in-repeat", what, {"kind": "single", "text": prog, "expected_hex": want.hex()}, want.hex(), out.brief())
    elif k == "literals":
        vals = [0, 1, 7, 8, 9, 10, 15, 16, 63, 64, 255, 256, 0o77777, 0o100000, 0o177777, 0o200000, 2 ** 31 - 1, 2 ** 31, 2 ** 32 - 1, 2 ** 32 + 5, 2 ** 48 + 9]
        items = []
        for v in vals:
            sp = ["%o" % v, "%d." % v, "0x%x" % v, "0X%X" % v, "0o%o" % v, "0O%o" % v, "0b%s" % bin(v)[2:], "0B%s" % bin(v)[2:],
                  "^X%x" % v, "^x%X" % v, "^O%o" % v, "^o%o" % v, "^B%s" % bin(v)[2:], "^b%s" % bin(v)[2:], "^D%d" % v, "^d%d" % v]
            for s in sp:
                for neg in (False, True):
                    text = ("-" if neg else "") + s
                    val = -v if neg else v
                    for form in (text, "1 + " + text, text + " * 1", "(" + text + ")", "x%d" % len(items)):
                        if form.startswith("x"):
                            stmt, exp = observe(form, val)
                            items.append((("lit-sym", text), stmt + "\n" + form + " = " + text, exp))
                        else:
                            val2 = val + 1 if form.startswith("1 +") else val
                            stmt, exp = observe(form, val2)
                            items.append((("lit", form), stmt, exp))
        for c in range(0x20, 0x7F):
            ch = chr(c)
            esc = {"\\": "\\\\", "'": "\\'"}.get(ch, ch)
            items.append((("char", c), ".word '%s" % esc, bytes([c, 0])))
            items.append((("char+", c), ".word '%s + 1" % esc, bytes([(c + 1) & 255, (c + 1) >> 8])))
            e2 = esc if ch != '"' else '\\"'
            items.append((("char2", c), '.word "%sZ' % e2, bytes([c, 0x5A])))
            items.append((("char2s", c), '.word "Z%s - 1' % e2, bytes([0x59, c])))
        A = rad50.ALPHABET
        for s in ("A", "AB", "ABC", "Z9$", "a.b", "%", "9", "zzz"):
            u = (s.upper() + "  ")[:3]
            w = (A.index(u[0]) * 40 + A.index(u[1])) * 40 + A.index(u[2])
            items.append((("r50", s), ".word ^R%s" % s, bytes([w & 255, w >> 8])))
            items.append((("r50+", s), ".dword ^R%s * 2 + 1" % s, bytes([((2 * w + 1) >> 16) & 255, 0, (2 * w + 1) & 255, ((2 * w + 1) >> 8) & 255])))
            nw = (-w) & 0xFFFF
            items.append((("r50-neg", s), ".word -^R%s" % s, bytes([nw & 255, nw >> 8])))
            items.append((("r50-neg-sp", s), ".word - ^R%s + 1" % s, bytes([(nw + 1) & 255, ((nw + 1) >> 8) & 255])))
            items.append((("r50-neg-imm", s), "mov #-^R%s, r0" % s, b"\xc0\x15" + bytes([nw & 255, nw >> 8])))
            items.append((("r50-sub", s), ".word 0-^R%s" % s, bytes([nw & 255, nw >> 8])))
            items.append((("r50-inv", s), ".word ~^R%s" % s, bytes([(~w) & 255, ((~w) >> 8) & 255])))
        for i in range(0, len(items), B):
            batch.run_valid_batch(items[i:i + B], r, ID, describe=lambda it: {"family": "literal"})
        # character literals under every output charset: the value is the encoded text read as a little-endian number (at most 2 bytes)
        for cs in ("bk", "koi8-r", "cp1251", "cp866", "latin-1", "utf-8", "utf-16-le", "utf-16-be", "shift_jis", "gbk"):
            good = []
            for text in ("a", "~", "\u044f", "\u0416", "\u00e9", "\u00df", "\u20ac", "\u3042", "\u4e2d", "ab", "a\u044f", "\u044fa", "\u044f\u044e", "\u00e9\u00e9"):
                try:
                    enc = text.encode(cs)
                except UnicodeEncodeError:
                    enc = None
                for form, lit in (((".word '%s", text),) if len(text) == 1 else ((".word \"%s", text),)):
                    stmt = form % lit
                    if enc is None or len(enc) > 2:
                        batch.expect_error(stmt + "\n", r, ("charlit-bad", cs, stmt), {"kind": "error", "text": stmt + "\n", "charset": cs}, charset=cs)
                    else:
                        v = int.from_bytes(enc, "little")
                        good.append((("charlit", cs, stmt), stmt, bytes([v & 255, v >> 8])))
                        good.append((("charlit+", cs, stmt), stmt + " + 1", bytes([(v + 1) & 255, ((v + 1) >> 8) & 255])))
                        good.append((("charlit-sym", cs, stmt), ".word q%d\nq%d = %s" % (len(good), len(good), stmt.split(" ", 1)[1]), bytes([v & 255, v >> 8])))
            batch.run_valid_batch(good, r, ID, charset=cs, describe=lambda it: {"family": "char-literal"})
    elif k == "bad-digits":
        for s in ("8", "9", "18", "19", "780", "109", "8 + 1", "1 + 9", "(8)", "-8", "-19", "2 * 18"):
            for ctx in (".word %s", ".dword %s", "mov #%s, r0", "x = %s\n.word x", ".byte %s"):
                text = ctx % s + "\n"
                batch.expect_error(text, r, ("bad89", text), {"kind": "error", "text": text})
        good = [(("dec", s), ".word %s" % s, e) for s, e in (("8.", b"\x08\x00"), ("9.", b"\x09\x00"), ("18.", b"\x12\x00"), ("0x8", b"\x08\x00"), ("^D9", b"\x09\x00"), ("0x9 + 8.", b"\x11\x00"),
                                                             # shifting right by any count is plain arithmetic: floor(a / 2**n)
                                                             ("1 >> 100000001.", b"\x00\x00"), ("-1 >> 100000001.", b"\xff\xff"), ("1 _ -100000001.", b"\x00\x00"), ("-5 _ -100000001.", b"\xff\xff"),
                                                             ("1 >> 40000000000", b"\x00\x00"), ("<1 << 20.> >> 20000000.", b"\x00\x00"))]
        # a prefix operator may follow an infix operator: a op (prefix b), also two prefixes, also after a bracket
        for op in ref.INFIX:
            for pre in ref.PREFIX:
                for a, b in ((7, 2), (100, 3)):
                    for text, tree in (("%d. %s %s%d." % (a, op, pre, b), ("bin", op, ("lit", a), ("un", pre, ("lit", b)))),
                                       ("%d. %s %s %s%d." % (a, op, pre, "~", b), ("bin", op, ("lit", a), ("un", pre, ("un", "~", ("lit", b))))),
                                       ("<%d.> %s %sx9" % (a, op, pre), ("bin", op, ("lit", a), ("un", pre, ("lit", 9)))),
                                       ("%d. %s %s<%d. + 1>" % (a, op, pre, b), ("bin", op, ("lit", a), ("un", pre, ("lit", b + 1))))):
                        if pre == "^C":
                            text = text.replace("^C", "^C ")
                        try:
                            v = ref.evaluate(tree)
                        except (ref.RefError, ref.TooBig):
                            continue
                        if not -2 ** 31 <= v < 2 ** 31:
                            continue
                        good.append((("prefix-after-infix", text), ".dword %s" % text, bytes([(v >> 16) & 255, (v >> 24) & 255, v & 255, (v >> 8) & 255])))
        good.append((("x9",), "x9 = 11", b""))
        batch.run_valid_batch(good, r, ID)
        for s in ("1 / 0", "1 % 0", "5 / (2 - 2)", "1 << -1", "1 >> -1", "1 << (0 - 3)", "z / 0\nz = 4", "4 % y\ny = 0", "1 << n\nn = -2", "1 >> n\nn = -2"):
            text = ".word " + s + "\n"
            batch.expect_error(text, r, ("arith", text), {"kind": "error", "text": text})


def apply_prefix_leading(t, p):
    """prefix written at the very start of the flat text applies to the first primary"""
    if t[0] == "bin":
        return ("bin", t[1], apply_prefix_leading(t[2], p), t[3])
    return ("un", p, t)
