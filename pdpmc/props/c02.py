"""C02 Addresses the program sees equal where its bytes land — E2 operation-sequence search + hook trace."""
import os
import itertools
from .. import driver, alphabet
from ..driver import wait

ID = "C02"
LEVEL = "model_checking"
EXHAUSTIVE = True
CHUNK = 1
CASE_TIMEOUT = 900
RULE = ("breadth-first search over all statement sequences up to the depth bound over a 44-statement alphabet in which every size path "
        "is present (fixed sizes, sizes known only after a later symbol, address-dependent sizes, '. =' skips, repeats with parity-"
        "dependent bodies, inserted files, includes nested to depth 3, an included file and a repeat body with text behind a pending chunk, label-only and assignment lines), each sequence assembled as a "
        "fresh run under the link regimes {default base, .link first at 1000/1001/0/157770, .link last}; plus every ordered 1-3 tuple "
        "of an 8-file alphabet (two files hold text behind a chunk that is pending when first met); plus the 21 practice programs. On every error-free run (a) the hook trace invariants hold: consecutive "
        "statements of a block are contiguous, the image holds each statement's bytes at the address it was given (nested blocks "
        "included), the image length is the sum of top-level sizes, every label equals the address of the bytes that follow it; and (b) "
        "the image, including a '.word L0,L1,...' probe table, equals the reference layout byte for byte. state = one statement "
        "sequence x regime; transition = appending one statement; non-trivial = error-free run with a distinct (regime, program)")
ASSUMPTIONS = ["hook PDPY11_VERIF=1 records (block, start, statement, address, chunk) - add-only, see MANIFEST.hooks",
               "reference sizes/bytes of the alphabet in pdpmc/alphabet.py", "programs that report errors are outside the property's premise and only counted"]
A = alphabet
REGIMES_ALL = [("none", 0o1000), ("first", 0o1000), ("first", 0o1001), ("first", 0), ("first", 0o157770), ("last", 0o1000), ("last", 0o1001)]
REGIMES_Q3 = [("none", 0o1000), ("first", 0o1000), ("first", 0o1001), ("last", 0o1000)]
PRACTICE = os.path.join(driver.REPO, "tests", "practice")
FILES6 = [["nop", "byte1"], ["even", "worddot"], ["blkbf", "mov4"], ["ascii3"], ["repf", "label"], ["incinc", "assign"], ["blkbf", "ascii2"], ["even", "worddot", "asciz2", "byte1"]]


def bound(tier):
    return "depth %d complete over 44 statements (depth <= %d under all 7 regimes, deepest level under %d regimes); 584 file tuples x 7 regimes; 21 practice programs" % (
        (4, 3, 3) if tier == "thorough" else (3, 2, 4))


def cases(tier):
    deep = 4 if tier == "thorough" else 3
    for d in range(1, deep + 1):
        regs = REGIMES_ALL if d < deep else (REGIMES_Q3[:3] if tier == "thorough" else REGIMES_Q3)
        for ri, (link, base) in enumerate(regs):
            if d <= 2:
                yield {"k": "seq", "d": d, "first": None, "link": link, "base": base}
            else:
                for f in A.ORDER:
                    if d == 4:
                        for g in A.ORDER:
                            yield {"k": "seq", "d": d, "first": [f, g], "link": link, "base": base}
                    else:
                        yield {"k": "seq", "d": d, "first": [f], "link": link, "base": base}
    for n in (1, 2, 3):
        for tup in itertools.product(range(len(FILES6)), repeat=n):
            yield {"k": "files", "files": list(tup)}
    for name in sorted(os.listdir(PRACTICE)):
        yield {"k": "practice", "name": name}


def check_trace(out, r, case):
    """model-free invariants (i)-(iv) on the hook trace of an error-free run; returns list of (sig, what)"""
    probs = []
    base, image = out.base, out.code
    trace = out.trace or []
    inv = {}
    vals = []
    for (block, start, stmt, addr, chunk) in trace:
        a = wait(addr)
        b = wait(chunk)
        vals.append((block, start, stmt, a, b))
        inv.setdefault((id(block), id(start)), []).append((stmt, a, b))
    def sname(stmt):
        n = getattr(getattr(stmt, "name", None), "name", None)
        return n.lower() if n else type(stmt).__name__
    for key, ents in inv.items():
        for (s1, a1, b1), (s2, a2, b2) in zip(ents, ents[1:]):
            if a2 != a1 + len(b1):
                probs.append(("trace-contiguity:" + sname(s1), "statement %r was given address %o and produced %d bytes, yet the next statement %r was given %o" % (
                    s1, a1, len(b1), s2, a2)))
                break
    for (block, start, stmt, a, b) in vals:
        off = a - base
        if off < 0 or image[off:off + len(b)] != b:
            probs.append(("image-at-address:" + sname(stmt), "statement %r was given address %o but its %d bytes are not in the image there" % (stmt, a, len(b))))
            break
    top = set(id(f.body) for f in out.parsed)
    total = sum(len(b) for (block, start, stmt, a, b) in vals if id(block) in top)
    if total != len(image):
        probs.append(("image-length", "image has %d bytes, top-level statements produced %d" % (len(image), total)))
    # labels: address of the bytes that follow
    from pdpy11.types import Label
    lab = {}
    for _n, (tok, val) in out.comp.symbols.items():
        if isinstance(tok, Label):
            lab[id(tok)] = (tok, val)
    blocks = {}
    for (block, start, stmt, a, b) in vals:
        blocks.setdefault(id(block), (block, []))[1].append((stmt, a, b))
    for bid, (block, ents) in blocks.items():
        pos = {id(s): i for i, s in enumerate(block.insns)}
        for i, ins in enumerate(block.insns):
            if id(ins) in lab:
                tok, val = lab[id(ins)]
                v = wait(val)
                nxt = [e for e in ents if pos.get(id(e[0]), -1) > i]
                if nxt:
                    want = nxt[0][1]
                else:
                    prev = [e for e in ents if pos.get(id(e[0]), -1) < i]
                    want = prev[-1][1] + len(prev[-1][2])
                if v != want:
                    probs.append(("label-address", "label %r has value %o but the bytes that follow it lie at %o" % (tok, v, want)))
                    break
    return probs


def run_program(text, tree, r, case, key, want_image, want_base):
    out = driver.assemble([("p.mac", text)], tree=tree, keep=True)
    r.states += 1
    if out.status != "ok":
        r.ran("not-error-free:" + out.cls(), key=None, nontrivial=False)
        r.extra["runs_outside_premise"] += 1
        if want_image is not None:
            r.extra["legal_programs_not_assembled"] += 1
        return out
    r.ran("ok", key=key)
    probs = check_trace(out, r, case)
    if want_image is not None and (out.code != want_image or out.base != want_base):
        n = next((i for i, (x, y) in enumerate(zip(out.code, want_image)) if x != y), min(len(out.code), len(want_image)))
        probs.append(("layout-vs-reference", "image differs from the reference layout at offset %d (lengths %d / %d, base %o / %o)" % (
            n, len(out.code), len(want_image), out.base, want_base)))
    for sig, what in probs[:2]:
        r.violation(sig, what, dict(case, k="program", text=text, tree=True, want=want_image.hex() if want_image is not None else None, base=want_base),
                    None, out.brief())
    return out


def check(case, r, tier):
    k = case["k"]
    if k == "program":
        want = bytes.fromhex(case["want"]) if case.get("want") is not None else None
        run_program(case["text"], A.TREE, r, case, case["text"], want, case.get("base"))
        return
    if k == "seq":
        d, first = case["d"], case["first"] or []
        for rest in itertools.product(A.ORDER, repeat=d - len(first)):
            seq = first + list(rest)
            prog = A.build(seq, case["base"], link=case["link"])
            if prog is None:
                continue
            r.trans += 1
            run_program(prog["text"], A.TREE, r, {"seq": seq, "link": case["link"], "base": case["base"]},
                        (case["link"], case["base"], tuple(seq)), prog["image"], case["base"])
        return
    if k == "files":
        for link, base in REGIMES_ALL:
            files, image, addr, ok, defs_all = [], b"", base, True, []
            tup = case["files"]
            for fi, f in enumerate(tup):
                seq = FILES6[f]
                # build each file with its own exported labels; the link directive goes into the first/last file
                lk = "first" if (link == "first" and fi == 0) else ("last" if (link == "last" and fi == len(tup) - 1) else "nolink")
                prog = A.build(seq, addr, link=lk if lk != "nolink" else "x", labels=True, probe=True, exported=False, label_prefix="F%dL" % fi)
                if prog is None:
                    ok = False
                    break
                text = prog["text"]
                if lk == "first":
                    text = text.replace(".link %o" % addr, ".link %o" % base, 1)
                if lk == "last":
                    text = text.replace(".link %o\n" % addr, ".link %o\n" % base)
                files.append(("f%d.mac" % fi, text))
                if prog["image"] is None:
                    image = None
                if image is not None:
                    image += prog["image"]
                addr = prog["end"]
            if not ok:
                continue
            out = driver.assemble(files, tree=A.TREE, keep=True)
            r.states += 1
            r.trans += len(tup)
            if out.status != "ok":
                r.ran("not-error-free:" + out.cls(), nontrivial=False)
                r.extra["runs_outside_premise"] += 1
                continue
            r.ran("ok", key=("files", tuple(tup), link, base))
            probs = check_trace(out, r, case)
            if image is not None and (out.code != image or out.base != base):
                probs.append(("layout-vs-reference:files", "linked image differs from the reference layout"))
            for sig, what in probs[:2]:
                r.violation(sig, what, {"k": "files", "files": tup, "link": link, "base": base, "texts": files}, None, out.brief())
        return
    if k == "practice":
        d = os.path.join(PRACTICE, case["name"])
        src = os.path.join(d, "code.mac")
        with open(src, encoding="utf-8") as f:
            text = f.read()
        with open(os.path.join(d, "out.bin"), "rb") as f:
            want = f.read()
        rec = driver.Recorder()
        from pdpy11 import parser, reports
        from pdpy11.compiler import Compiler
        out = driver.Outcome()
        try:
            with reports.handle_reports(rec):
                parsed = [parser.parse(src, text)]
                comp = Compiler()
                base, code = comp.compile_and_link_files(parsed)
            out.status, out.base, out.code, out.comp, out.parsed, out.trace = "ok", base, bytes(code), comp, parsed, comp._verif_trace
        except Exception as ex:  # noqa
            out.status = "crash:" + type(ex).__name__
        r.states += 1
        r.trans += len(out.trace or [])
        if out.status != "ok":
            r.ran(out.status, key=("practice", case["name"]))
            r.violation("practice-not-assembled", "practice program %s does not assemble (%s)" % (case["name"], out.status), case)
            return
        r.ran("ok", key=("practice", case["name"]))
        import struct
        probs = check_trace(out, r, case)
        if struct.pack("<HH", out.base, len(out.code)) + out.code != want:
            probs.append(("practice-image", "image differs from the committed out.bin"))
        for sig, what in probs[:2]:
            r.violation(sig + ":practice", what, case, None, {"base": out.base, "len": len(out.code)})
