"""C06 Data directives store exactly the stated value or refuse — E1, exhaustive."""
import itertools
from .. import batch, driver
from ..ref import charset as refcs

ID = "C06"
LEVEL = "exploration"
EXHAUSTIVE = True
CHUNK = 1
CASE_TIMEOUT = 600
RULE = ("complete enumeration: for n in 8/16/32 (.byte/.word/implicit word list/.dword) the 9 boundary values {0,1,2^(n-1),2^n-1,-(2^n-1),"
        "2^n,-2^n,2^n+1,-1} in every position of lists of 1-8 operands (all pairs for lists of 2) at even and odd addresses, values "
        "written as constants and as symbols defined later; .ascii/.asciz with every single character of each charset (bk, koi8-r, "
        "latin-1, cp866: 256 each; utf-8: first 0x800 code points + one per 256-block in quick, every BMP code point in thorough) under "
        "each of the three quote characters, every escape (all 256 \\xHH), <n> for n in -1..256, all strings of length <= 2 over "
        "{a, Cyrillic, quote, backslash, <12>}; .blkb/.blkw counts {0..9,177777,200000,-1}; .even/.odd at both parities; .align m for "
        "m in 1..64 at every residue and two bases; 12 directive forms under 6 spellings of the directive name (upper, capitalised, and without the dot - accepted with a warning), also inside '.repeat'. Accepted statements are batched and compared byte for byte; statements that must be "
        "refused run alone and must fail with an error. Non-trivial = distinct (charset, statement text, address parity)")
ASSUMPTIONS = ["Python's codecs are the independent definition of the selectable output charsets; for 'bk' ASCII/KOI8-R per pdpmc/ref/charset.py",
               "content of an operand-less .byte/.word/.dword is not demanded (their size is C02's subject)"]
B = 300
CHARSETS = ["bk", "koi8-r", "latin-1", "cp866", "utf-8"]


def bound(tier):
    return "complete for the listed spaces; utf-8: %s" % ("every BMP code point" if tier == "thorough" else "first 0x800 code points + one per 256-block")


def enc_int(v, n):
    u = v % (1 << n)
    if n == 8:
        return bytes([u])
    if n == 16:
        return bytes([u & 255, u >> 8])
    hi, lo = u >> 16, u & 0xFFFF
    return bytes([hi & 255, hi >> 8, lo & 255, lo >> 8])


def num(v):
    return ("-%o" % -v) if v < 0 else "%o" % v


def cases(tier):
    for d, n in ((".byte", 8), (".word", 16), ("", 16), (".dword", 32), (".db", 8), (".dw", 16)):
        yield {"k": "ints", "dir": d, "n": n}
    for cs in CHARSETS:
        if cs == "utf-8":
            if tier == "thorough":
                cps = list(range(0x10000))
            else:
                cps = list(range(0x800)) + [b * 256 + (b * 37) % 256 for b in range(8, 256)]
        else:
            cps = None
        if cps is None:
            for lo in range(0, 256, 64):
                yield {"k": "chars", "cs": cs, "bytes": [lo, lo + 64]}
        else:
            for i in range(0, len(cps), 512):
                yield {"k": "chars", "cs": cs, "cps": cps[i:i + 512]}
        yield {"k": "esc", "cs": cs}
        yield {"k": "short", "cs": cs}
    yield {"k": "angle"}
    yield {"k": "blk"}
    yield {"k": "parity"}
    yield {"k": "directive-spelling"}
    for first in range(len(PLACE_STMTS)):
        yield {"k": "placement", "first": first}
    for m in range(1, 65):
        yield {"k": "align", "m": m}


# address-sensitive directives where the true address is the sum of several things: the link base (even or odd, set first or last),
# the offset of an '.include' in its parent, the offset inside the included file, the iteration of a '.repeat'
PLACE_STMTS = [(".byte 21", "byte", 0o21), (".even", "even", None), (".odd", "odd", None), (".align 4", "align", 4), (".word 401", "word", 0o401), (".byte 22", "byte", 0o22)]


def place_reference(addr, body):
    """bytes of the body statements starting at address addr, or None when word data lands on an odd address"""
    out = bytearray()
    for _t, kind, arg in body:
        a = addr + len(out)
        if kind == "byte":
            out.append(arg)
        elif kind == "even":
            out += b"\x00" * (a % 2)
        elif kind == "odd":
            out += b"\x00" * ((a + 1) % 2)
        elif kind == "align":
            out += b"\x00" * ((-a) % arg)
        else:
            if a % 2:
                return None
            out += bytes([arg & 255, arg >> 8])
    return bytes(out)


def ref_encode(s, cs):
    """independent encoding of string s in charset cs, or None if it must be refused"""
    if cs == "bk":
        out = bytearray()
        for ch in s:
            o = ord(ch)
            if o <= 0x7E:
                out.append(o)
                continue
            try:
                b = ch.encode("koi8_r")
            except UnicodeEncodeError:
                return "skip"  # outside what the property fixes for bk (C14 covers the table)
            if b[0] >= 0xC0:
                out.append(b[0])
            else:
                return "skip"
        return bytes(out)
    try:
        return s.encode(cs)
    except UnicodeEncodeError:
        return None


def quote_text(s, q):
    out = []
    for ch in s:
        if ch == q or ch == "\\":
            out.append("\\" + ch)
        else:
            out.append(ch)
    return q + "".join(out) + q


ODD = ".ascii <5>\n"   # one byte; a string operand cannot swallow a following line that starts with '-'


def odd_wrap(text, body, word_data):
    """place the statement on an odd address: a leading data byte, then the statement, then re-align"""
    # (explicit filler rather than '.even': many address-dependent unsized statements in one program with an
    # unsettled base make the assembler exponentially slow - see DESIGN.md section 9)
    if (1 + len(body)) % 2 == 0:
        return ODD + text, b"\x05" + body
    return ODD + text + "\n.byte 0", b"\x05" + body + b"\x00"


def check(case, r, tier):
    k = case.get("k") or case.get("kind")
    if k == "single":
        return batch.replay_single(case, r)
    if k == "error":
        return batch.replay_error(case, r)
    good, bad = [], []   # good: (key, text, bytes) ; bad: (key, text)
    cs = case.get("cs", "bk")
    if k == "ints":
        d, n = case["dir"], case["n"]
        lim = 1 << n
        vals = [0, 1, lim >> 1, lim - 1, -(lim - 1), lim, -lim, lim + 1, -1]
        lists = []
        for L in range(1, 9):
            for pos in range(L):
                for v in vals:
                    lst = [0] * L
                    lst[pos] = v
                    lists.append(lst)
        for a, b in itertools.product(vals, repeat=2):
            lists.append([a, b])
        lists.append([3, lim - 1, -(lim - 1), 1, lim >> 1, -1, 2, 7])
        seen = set()
        sym = 0
        for lst in lists:
            if tuple(lst) in seen:
                continue
            seen.add(tuple(lst))
            valid = all(abs(v) < lim for v in lst)
            body = b"".join(enc_int(v, n) for v in lst) if valid else None
            for spelled in ("const", "sym"):
                if spelled == "const":
                    ops = ", ".join(num(v) for v in lst)
                    defs = ""
                else:
                    names = ["q%d_%d" % (sym, i) for i in range(len(lst))]
                    sym += 1
                    ops = ", ".join(names)
                    defs = "".join("\n%s = %s" % (nm, num(v)) for nm, v in zip(names, lst))
                    if len(lst) > 3 and lst.count(0) < len(lst) - 1:
                        pass
                if d == "" and spelled == "sym":
                    continue  # an implicit word list must start with a number to be unambiguous
                text = (d + " " if d else "") + ops
                if not d:
                    sym += 1
                    text = "w%d: %s" % (sym, text)  # a label line: the previous statement cannot absorb a leading '-'
                for parity in ("even", "odd"):
                    key = (d, spelled, tuple(lst), parity)
                    if parity == "even":
                        if valid:
                            good.append((key, text + defs, body))
                        else:
                            bad.append((key, text + defs))
                    else:
                        if n == 8 and valid:
                            t2, b2 = odd_wrap(text, body, False)
                            good.append((key, t2 + defs, b2))
                        elif len(lst) <= 2 or not valid:
                            # word data at an odd address (or an out-of-range value there) must be refused
                            bad.append((key, ODD + text + defs))
        # operand-less word/dword at an odd address is word data at an odd address too
        if n > 8 and d:
            bad.append(((d, "no-operand", "odd"), ODD + d))
    elif k == "chars":
        if "bytes" in case:
            chars = []
            for b in range(*case["bytes"]):
                if cs == "bk":
                    ch = refcs.expected_char(b)
                    if ch is None:
                        continue
                else:
                    try:
                        ch = bytes([b]).decode(cs)
                    except UnicodeDecodeError:
                        continue
                chars.append(ch)
            # plus characters foreign to the charset
            chars += [chr(cp) for cp in (0x100 + case["bytes"][0], 0x2713, 0x1F600 + case["bytes"][0] % 7)]
            if cs == "bk":
                table = set(bytes(range(256)).decode("bk")) | {"\u00a4"}
                foreign = [chr(cp) for cp in range(0x7F + case["bytes"][0] // 2, min(0x7F + case["bytes"][0] // 2 + 32, 0x100)) if chr(cp) not in table]
                for ch in foreign:
                    for q in ('"', "/"):
                        bad.append(((cs, "foreign-low", q, ord(ch)), ".ascii %s" % quote_text("x" + ch + "y", q)))
                    bad.append(((cs, "foreign-low-char", ord(ch)), ".word '%s" % ch))
        else:
            chars = [chr(cp) for cp in case["cps"]]
        for ch in chars:
            e = ref_encode(ch, cs)
            if e == "skip":
                continue
            for q in ('"', "'", "/"):
                for d, tail in ((".ascii", b""), (".asciz", b"\x00")):
                    text = "%s %s" % (d, quote_text("x" + ch + "y", q))
                    key = (cs, d, q, ord(ch))
                    if e is None:
                        bad.append((key, text))
                    else:
                        good.append((key, text, b"x" + e + b"y" + tail))
    elif k == "esc":
        simple = {"n": "\n", "r": "\r", "t": "\t", "\\": "\\", '"': '"', "'": "'", "/": "/", "N": "\n", "T": "\t", "R": "\r"}
        for esc, ch in simple.items():
            for q in ('"', "'", "/"):
                e = ref_encode(ch, cs)
                good.append(((cs, "esc", esc, q), ".ascii %sa\\%sb%s" % (q, esc, q), b"a" + e + b"b"))
        for hv in range(256):
            ch = chr(hv)
            e = ref_encode(ch, cs)
            if e == "skip":
                continue
            for fmt in ("%02x", "%02X"):
                text = '.ascii "p\\x%sq"' % (fmt % hv)
                key = (cs, "hex", fmt % hv)
                if e is None:
                    bad.append((key, text))
                else:
                    good.append((key, text, b"p" + e + b"q"))
        good.append(((cs, "esc", "backslash-newline"), '.ascii "ab\\\ncd"', b"abcd"))
        for esc in ("q", "z", "0", "e", "xg1", "x1z", "x", "x 41", "x\t41", "x  4 1", "x4 1", "x;41", "x\n41"):
            bad.append(((cs, "badesc", esc), '.ascii "a\\%sb"' % esc))
        for esc in ("x 41", "x\t41"):
            bad.append(((cs, "badesc-lit", esc), ".byte '\\%s" % esc))
    elif k == "short":
        if True:
            # multi-byte characters next to a <symbol> chunk defined later, followed by address-sensitive statements:
            # the announced size (if any) must be the number of *bytes*
            for txt in ("\u00e9", "a\u00e9", "\u044f\u044f", "\u20ac", "a"):
                e = ref_encode(txt, cs)
                if e is None or e == "skip":
                    continue
                for d, tail in ((".ascii", b""), (".asciz", b"\x00")):
                    body = e + b"\x0d" + tail
                    pad = b"\x00" * (len(body) % 2)
                    uid = "%s%d%d" % (d[-1], len(good), len(e))
                    good.append(((cs, "late-angle", d, txt), "%s \"%s\"<cr%s>\n.even\n.word 401\ncr%s = 15" % (d, txt, uid, uid), body + pad + b"\x01\x01"))
        elems = ["a", "я", "Q", "\\", "<12>"]
        for L in (0, 1, 2):
            for combo in itertools.product(elems, repeat=L):
                for q in ('"', "'", "/"):
                    chunks, cur, raw = [], "", []
                    for el in combo:
                        if el == "<12>":
                            if cur:
                                chunks.append(quote_text(cur, q))
                                cur = ""
                            chunks.append("<12>")
                            raw.append(b"\x0a")
                        else:
                            ch = q if el == "Q" else el
                            cur += ch
                            raw.append(ch)
                    if cur or not chunks:
                        chunks.append(quote_text(cur, q))
                    exp = b""
                    ok = True
                    for x in raw:
                        if isinstance(x, bytes):
                            exp += x
                        else:
                            e = ref_encode(x, cs)
                            if e is None or e == "skip":
                                ok = False
                                break
                            exp += e
                    for d, tail in ((".ascii", b""), (".asciz", b"\x00")):
                        text = d + " " + "".join(chunks)
                        key = (cs, d, text)
                        if ok:
                            good.append((key, text, exp + tail))
                        elif all(isinstance(x, bytes) or ref_encode(x, cs) != "skip" for x in raw):
                            bad.append((key, text))
    elif k == "angle":
        for nval in range(-1, 257):
            for text, pre, post in ((".ascii <%d.>", b"", b""), (".ascii /ab/<%d.>/c/", b"ab", b"c"), (".asciz <%d.>", b"", b"\x00"),
                                    (".ascii <%d.><1>", b"", b"\x01")):
                t = text % nval
                key = ("angle", t)
                if 0 <= nval <= 255:
                    good.append((key, t, pre + bytes([nval]) + post))
                else:
                    bad.append((key, t))
        good.append((("angle", "expr"), ".ascii <40+1><2*3>/z/", b"\x21\x06z"))
        good.append((("angle", "sym"), ".ascii <lf>/z/<cr>\nlf = 12\ncr = 15", b"\x0az\x0d"))
    elif k == "blk":
        for d, unit in ((".blkb", 1), (".blkw", 2)):
            for nval in list(range(10)) + [0o177777]:
                for t in ("%s %o" % (d, nval), "%s %d." % (d, nval)):
                    good.append((("blk", t), t, b"\x00" * (unit * nval)))
                good.append((("blk-sym", d, nval), "%s cnt%d%s\ncnt%d%s = %o" % (d, nval, d[-1], nval, d[-1], nval), b"\x00" * (unit * nval)))
            for nval in (0o200000, -1, 0o200001, -0o177777):
                bad.append((("blk", d, nval), "%s %s" % (d, num(nval))))
    elif k == "directive-spelling":
        # the directive's name in upper and mixed case and without its dot (accepted with a 'meta-typo' warning): the same bytes
        forms = [("byte", "1, 2, 377", b"\x01\x02\xff"), ("word", "5, 177777", b"\x05\x00\xff\xff"), ("dword", "200001", b"\x01\x00\x01\x00"),
                 ("ascii", "\"ab\"", b"ab"), ("asciz", "\"ab\"", b"ab\x00"), ("asciz", "\"\"", b"\x00"), ("asciz", "\"a\"<102>", b"aB\x00"),
                 ("rad50", "\"abc\"", b"\x93\x06"), ("blkb", "3", b"\x00" * 3), ("blkw", "2", b"\x00" * 4), ("db", "7", b"\x07"), ("dw", "7", b"\x07\x00")]
        for name, ops, want in forms:
            for sp in ("." + name, "." + name.upper(), "." + name.capitalize(), name, name.upper(), name.capitalize()):
                good.append((("spelling", sp, ops), "%s %s" % (sp, ops), want))
                good.append((("spelling-in-repeat", sp, ops), ".repeat 2 { %s %s }" % (sp, ops), want * 2))
        for sp in ("even", "EVEN", ".Even"):
            good.append((("spelling", sp), ".byte 1\n%s\n.byte 2" % sp, b"\x01\x00\x02"))
        for sp in ("odd", "ODD", ".Odd"):
            good.append((("spelling", sp), "%s\n.byte 2" % sp, b"\x00\x02"))
    elif k == "parity":
        good.append((("even", "at-even"), ".even", b""))
        good.append((("odd", "at-even"), ".odd\n.byte 3", b"\x00\x03"))
        good.append((("even", "at-odd"), ".byte 1\n.even", b"\x01\x00"))
        good.append((("odd", "at-odd"), ".byte 1\n.odd\n.byte 2", b"\x01\x02"))
        good.append((("even-even", ""), ".even\n.even\n.byte 7\n.even\n.even", b"\x07\x00"))
        good.append((("odd-odd", ""), ".odd\n.odd\n.byte 7", b"\x00\x07"))
        # parity seen through a not-yet-known size
        good.append((("even", "after-deferred-size"), ".blkb pn1\n.even\n.word 7\npn1 = 3", b"\x00\x00\x00\x00\x07\x00"))
        good.append((("odd", "after-deferred-size"), ".blkb pn2\n.odd\n.byte 7\npn2 = 2", b"\x00\x00\x00\x07"))
    elif k == "placement":
        bodies = []
        for n in (0, 1, 2):
            for rest in itertools.product(range(len(PLACE_STMTS)), repeat=n):
                bodies.append([PLACE_STMTS[case["first"]]] + [PLACE_STMTS[i] for i in rest])
        for body in bodies:
            btext = "".join(t + "\n" for t, _k, _a in body)
            for base in (0o1000, 0o1001):
                for link in ("first", "last"):
                    pre = ".link %o\n" % base if link == "first" else ""
                    post = ".link %o\n" % base if link == "last" else ""
                    progs = []
                    # (a) in the main file, after 0 or 1 bytes
                    for lead in (0, 1):
                        leadt = ".byte 1\n" * lead
                        want = place_reference(base + lead, body)
                        progs.append(("main+%d" % lead, [("p.mac", pre + leadt + btext + post)], None, None if want is None else b"\x01" * lead + want))
                        # (b) in an included file, itself after 0 or 1 bytes of its own
                        for own in (0, 1):
                            want = place_reference(base + lead + own, body)
                            progs.append(("included+%d+%d" % (lead, own), [("p.mac", pre + leadt + ".include \"inc.mac\"\n" + post)], {"inc.mac": ".byte 2\n" * own + btext},
                                          None if want is None else b"\x01" * lead + b"\x02" * own + want))
                    # (c) three times in a '.repeat', count literal or defined later
                    img, ok = bytearray(), True
                    for _ in range(3):
                        part = place_reference(base + len(img), body)
                        if part is None:
                            ok = False
                            break
                        img += part
                    for cnt, tail in (("3", ""), ("rn", "rn = 3\n")):
                        progs.append(("repeat-" + cnt, [("p.mac", pre + ".repeat %s {\n%s}\n" % (cnt, btext) + tail + post)], None, bytes(img) if ok else None))
                    for tag, files, tree, want in progs:
                        out = driver.assemble(files, tree=tree)
                        key = ("placement", tag, base, link, btext)
                        if want is None:
                            good = out.status == "fail"
                        else:
                            good = out.status == "ok" and out.base == base and out.code == want
                        r.ran("ok" if good and want is not None else out.cls(), key=key)
                        if not good:
                            if want is None:
                                sig = "accepted:word-at-odd-address:" + tag.split("+")[0] if out.status == "ok" else out.cls()
                                what = "word data lands on an odd address and must be refused"
                            else:
                                sig, what = batch.classify_mismatch(out, want)
                                sig += ":placement:" + tag.split("+")[0]
                            r.violation(sig, what + " (%s, base %o, .link %s)" % (tag, base, link),
                                        {"kind": "files", "files": [list(f) for f in files], "tree": tree, "expected_hex": None if want is None else want.hex(), "base": base},
                                        "error" if want is None else want.hex(), out.brief())
        return
    elif k == "files":
        want = None if case["expected_hex"] is None else bytes.fromhex(case["expected_hex"])
        out = driver.assemble([tuple(f) for f in case["files"]], tree=case.get("tree"))
        good = out.status == "fail" if want is None else (out.status == "ok" and out.code == want and out.base == case["base"])
        r.ran(out.cls(), key=None)
        if not good:
            r.violation("replay", "recorded program", case, case["expected_hex"], out.brief())
        return
    elif k == "align":
        m = case["m"]
        for base in (0o1000, 0o1003):
            items = []
            for res in range(m):
                pad = (-(base + res)) % m
                for mt in ("%o" % m, "%d." % m):
                    text = ".blkb %o\n.align %s\n.byte 1" % (res, mt)
                    body = b"\x00" * res + b"\x00" * pad + b"\x01"
                    full = ".link %o\n%s\n" % (base, text)
                    out = driver.assemble([("a.mac", full)])
                    key = ("align", m, base, res, mt)
                    ok = out.status == "ok" and out.code == body and out.base == base
                    r.ran("ok" if ok else out.cls(), key=key)
                    if not ok:
                        sig, what = batch.classify_mismatch(out, body)
                        r.violation(sig + ":align", what, {"kind": "single", "key": key, "text": full, "expected_hex": body.hex()},
                                    {"bytes": body.hex()}, out.brief())
            del items
        # the modulus known only later
        text = ".blkb 1\n.align am\n.byte 1\nam = %o\n" % m
        body = b"\x00" + b"\x00" * ((-(0o1000 + 1)) % m) + b"\x01"
        out = driver.assemble([("a.mac", text)])
        ok = out.status == "ok" and out.code == body
        r.ran("ok" if ok else out.cls(), key=("align-sym", m))
        if not ok:
            sig, what = batch.classify_mismatch(out, body)
            r.violation(sig + ":align", what, {"kind": "single", "text": text, "expected_hex": body.hex()}, {"bytes": body.hex()}, out.brief())
        return
    for i in range(0, len(good), B):
        batch.run_valid_batch(good[i:i + B], r, ID, charset=cs, describe=lambda it: {"family": k})
    for key, text in bad:
        out = driver.assemble([("e.mac", text + "\n")], charset=cs)
        r.ran(out.cls(), key=key)
        if out.status != "fail":
            if out.status == "ok":
                sig, what = "accepted:" + k, "a value/count/character/placement that must be refused was assembled without any error"
            elif out.status == "crash":
                sig, what = "crash:%s@%s" % (out.exc, out.site), "internal exception instead of a diagnostic"
            else:
                sig, what = out.status, "outcome %s" % out.status
            r.violation(sig, what, {"kind": "error", "text": text + "\n", "charset": cs}, "fail", out.brief())
