"""C10 Spelling does not matter — E2, rewrite-rule closure (state = program text, transition = one rewrite at one site)."""
import os
import re
import itertools
from .. import driver
from ..ref import isa

ID = "C10"
LEVEL = "model_checking"
EXHAUSTIVE = True
CHUNK = 1
CASE_TIMEOUT = 900
RULE = ("rewrite-rule closure from base programs: state = program text, transition = one spelling rule applied at one site. Rule families: "
        "letter case (mnemonic, directive, register, symbol, radix prefix, hex digits, ^C/^R), whitespace (tab, doubled blanks, blank "
        "line, trailing and full-line comment, a comment glued to the last token), number radix (octal, n., 0x, 0o, 0b, ^X, ^O, ^B, ^D), grouping (<> () ^/ /; brackets around a complete operand, immediate or index offset dropped), register "
        "spelling (rN %N sp/pc), mnemonic synonyms and pseudo-instruction expansions, explicit '.word' vs implicit list, (rN) vs @rN. "
        "From each of 29 single-file and 3 multi-file generated base programs (covering the statement kinds of C02/C04/C05/C06): every single rule at every site (deviation "
        "1), every pair of sites (deviation 2, thorough), every subset of rule families applied everywhere; from each of the 21 practice "
        "programs: each conservative rule family applied everywhere, all pairs, all together. Oracle: identical status, base, bytes and "
        "error kinds as the base program (warnings ignored); base programs are anchored by C01-C06. Non-trivial = distinct rewritten text")
ASSUMPTIONS = ["the rewriter works on a token model of sources written in a canonical style by the generator (arithmetic groups as <...>, "
               "register parentheses as (...)), so a rule never touches strings, character literals or comments",
               "for practice programs only rules that a line lexer can apply safely are used (identifier case, whitespace, comments, register spelling)",
               "'lbl+1' alone on a line is by design an instruction, so '.word' is only dropped where the list is unambiguous"]
PRACTICE = os.path.join(driver.REPO, "tests", "practice")
REGS = {"r0": 0, "r1": 1, "r2": 2, "r3": 3, "r4": 4, "r5": 5, "r6": 6, "r7": 7, "sp": 6, "pc": 7}
MNEM = set(isa.T)
STRDIR = {".ascii", ".asciz", ".rad50", ".include", "insert_file", "make_bin", "make_raw", "make_wav", "make_turbo_wav", ".error", ".title"}
SYN = {}
_groups = {}
for _n, (_c, _b, _e) in isa.T.items():
    if _e is None:
        _groups.setdefault((_c, _b), []).append(_n)
for _g in _groups.values():
    if len(_g) > 1:
        for _n in _g:
            SYN[_n] = [m for m in sorted(_g) if m != _n]
SYN[".byte"] = [".db"]
SYN[".db"] = [".byte"]
SYN[".word"] = [".dw"]
SYN[".dw"] = [".word"]

BASE_PROGRAMS = [
    "start: mov #1, r0\n\tmov r0, r1\n\tadd #10, r1\n\tcmp r0, r1\n\tbne start\n\thalt\n",
    "\tmov (r1)+, -(sp)\n\tmov @(r2)+, @-(r3)\n\tmov 4(r4), @6(r5)\n\tclr (r0)\n\tjmp (r1)\n\ttst (sp)\n",
    "\tmov #lab, r0\n\tmov lab, r1\n\tmov @#lab, r2\n\tmov @lab, r3\nlab:\t.word 17, 20., 0x1f\n",
    "\t.byte 1, 2, 3\n\t.even\n\t.word <1+2>*3, <lab-.>/2, ^c5\nlab:\t.blkb 4\n\t.blkw 2\n",
    "\t.ascii \"Ab c\"\n\t.asciz /x;y/\n\t.rad50 \"abc\"\n\t.even\n\t.word 'a, \"ab\n",
    "loop:\tsob r2, loop\n\tbr loop\n\tbcc loop\n\tbcs .+4\n\tbhis loop\n\tblo .-2\n\tjsr pc, loop\n\trts pc\n",
    "\tpush r1\n\tpop r2\n\tcall sub\n\tret\nsub:\treturn\n\tcallr sub\n",
    "\tclrf ac0\n\tldf (r1), ac1\n\tstf ac2, -(sp)\n\tmulf #1, ac3\n\tcmpf ac1, ac0\n\tldexp r2, ac1\n\tstexp ac0, (r3)\n\tsetd\n\tcfcc\n",
    "\temt 17\n\ttrap 377\n\tsys 1\n\tspl 7\n\tmark 2\n\tccc\n\tscc\n\tclnzvc\n\tnop\n\thlt\n\tmed\n",
    "a = 5\nb = a*2\nc == b+<a-1>\n\tmov #c, r0\n\t.word a, b, c\n\t.word b/2, b%3, a << 2, b >> 1, a _ 1, a&b, a^b, a!b\n",
    "\t.link 2000\nbeg:\tmov #beg, sp\n\t.repeat 3 { inc r0 }\n\t.align 4\n\t. = .+2\nend:\t.word end-beg\n",
    "1$:\tdec r0\n\tbne 1$\nnxt:\n1$:\tinc r1\n\tbeq 1$\n\tmov #1$, r2\n",
    "\tmov #-1, r0\n\tmov #-10., r1\n\tmov -2(r1), r2\n\t.word -1, -0x10\n\t.byte -1, 377\n\t.dword 100000, -1\n",
    "\tmul #3, r1\n\tdiv (r2), r0\n\tash #-1, r3\n\tashc r1, r2\n\txor r1, (r2)+\n\tswab r0\n\tsxt r1\n\tmfps r0\n\tmtps #340\n",
    "\tmovb #'a, (r0)+\n\tcmpb (r1)+, #12\n\tbitb #200, @#177716\n\tbicb r0, r1\n\tbisb #1, 2(r3)\n\ttstb (r4)\n",
    "x:\t.word x, x+2, <x+4>&177776\n\tmov x(r1), r0\n\tmov @x(r2), r0\n\tmov #x+2, r0\n\tjmp @#x\n",
    "\t.word 1, 2\n\t3, 4\n\t.word 5\n\t<6+1>, 10\n\t-1, 2\n",
    "\tmov %0, %1\n\tmov (%2)+, -(%6)\n\tjmp (%7)\n\tmov 2(%3), %4\n",
    "\tmov sp, r0\n\tmov pc, r1\n\tmov (sp)+, (pc)\n\tmov 2(sp), 4(pc)\n\tmov r6, r7\n",
    "\tfadd r1\n\tfsub r2\n\tfmul r3\n\tfdiv r4\n\tmfpi (r1)\n\tmtpi (r2)+\n\tmfpd r0\n\tmtpd -(r5)\n\trti\n\trtt\n\tbpt\n\tiot\n\twait\n\treset\n",
    "\t.word ^x1f, ^o17, ^b101, ^d19, 0x1F, 0o17, 0b11, ^rabc\n\t.byte ^c0&377\n",
    "\tinsert_file \"f5.bin\"\n\t.even\n\t.include \"inc2.mac\"\n\t.even\n\tmake_raw \"out.raw\"\n",
    "tbl:\t.word t1, t2\nt1:\tclr r0\nt2:\tcom r0\n\tneg r1\n\tadc r2\n\tsbc r3\n\tror r4\n\trol r5\n\tasr r0\n\tasl r1\n\tinc r2\n\tdec r3\n\ttst r4\n",
    "\t.word <1+<2*3> >, < <4> >\n\tmov #<5+<6> >, r0\n\tclr <tb+2>(r1)\ntb:\t.word 0, 0, 0\n",
]
BASE_PROGRAMS += [
    # implicit word lists that start with a constant; names that contain or end in words the parser treats specially
    "tblend = 1234\nbufend = 2\nx.end = 3\nend1 = 4\nmovx = 5\nr0x = 6\n\t.word tblend\n\t.word bufend, 1\n\t.word x.end\n\t.word end1, tblend\n\t.word movx\n\t.word r0x, r0x+1\n\tmov #tblend, r0\n\t.word 7\n",
    "t:\t.word 1, ., .+2\n\t.word 2, <.-t>, t\n\t.dw 3, .\n",
    "\t.byte 1, 2\n\t.db 3, 4\n\t.word 100, 200\n\t.dw 300\n\tbhis .+2\n\tblo .+2\n\tclrd ac0\n\ttstd (r1)\n\tldd (r2), ac1\n\tstd ac1, (r3)\n",
    "\tmov #<2+3>*4, r0\n\tmov <2+3>*4, r0\n\tclr <4>(r2)\n\tbr <.+4>\n\tnop\n\tsob r0, <.-2>\n\t.blkb <1+2>\n\t.even\n",
]
BASE_PROGRAMS += [
    # one statement token compiled several times ('.repeat') with grouped subexpressions that mention '.'
    "t:\t.repeat 4 { .word <.-t> }\n\t.repeat 3 {\n\tmov #<.+4>, r0\n\tmov <t-.>(r1), r2\n\t.word <.>, <.-t>/2\n\t}\n\t.word <.-t>\n",
    "\t.link 3000\nq:\t.repeat 2 { .repeat 2 { .byte <.-q>, <.-q>&1 } }\n\t.even\n\t.repeat 3 { clr <.+2> }\n\t.blkb <.-q>&3\n",
]
# multi-file base programs: (context files assembled before it, the file that is rewritten)
MULTI = [
    ([("ctx.mac", "exit::\tnop\nlimit == 5\ntab::\t.word 1\n")], "\tjmp exit\n\tmov #limit, r0\n\tmov tab, r1\nexit:\thalt\nlimit = 7\ntab:\t.word 2\n"),
    ([("ctx.mac", "entry::\tnop\n\tjsr pc, helper\n")], "helper::\tmov #entry, r0\n\tbr helper\n\t.word entry, helper\n"),
    ([("ctx.mac", "\t.extern all\nalpha:\tnop\nbeta = 12\n")], "\tmov alpha, r0\n\tmov #beta, r1\n\t.word alpha+beta\n"),
]
TREE = {"f5.bin": b"\x01\x02\x03\x04\x05", "inc2.mac": ".byte 7\n.byte 10\n.byte 11\n"}

TOKEN_RE = re.compile(r"""
    (?P<sp>[ \t]+) |
    (?P<nl>\n) |
    (?P<char>'[^\n]|"[^\n"][^\n"]) |
    (?P<caret>\^[xobdXOBD][0-9a-fA-F]+|\^[rR][a-zA-Z0-9$.%]+|\^[cC]) |
    (?P<num>0[xX][0-9a-fA-F]+|0[oO][0-7]+|0[bB][01]+|\d+\$|\d+\.|\d+) |
    (?P<shift><<|>>) |
    (?P<ident>\.?[a-zA-Z_$][a-zA-Z0-9_$.]*) |
    (?P<dot>\.) |
    (?P<punct>.)
""", re.X)


def lex(text):
    """token model of a canonical source; returns list of [kind, text, meta]"""
    toks = []
    pos = 0
    stmt_start = True
    string_mode = False
    while pos < len(text):
        if string_mode:
            m = re.compile(r"[ \t]*(\"[^\"\n]*\"|/[^/\n]*/|'[^'\n]*')").match(text, pos)
            if m:
                lead = m.group(0)[:len(m.group(0)) - len(m.group(1))]
                if lead:
                    toks.append(["sp", lead, None])
                toks.append(["str", m.group(1), None])
                pos = m.end()
                continue
            string_mode = False
        m = TOKEN_RE.match(text, pos)
        kind = m.lastgroup
        t = m.group(0)
        pos = m.end()
        meta = None
        if kind == "nl":
            stmt_start = True
            string_mode = False
        elif kind == "ident":
            low = t.lower()
            nxt = text[pos:pos + 2]
            if stmt_start and (nxt.startswith(":")):
                kind = "labeldef"
            elif stmt_start and low in STRDIR:
                kind = "dir"
                string_mode = True
                stmt_start = False
            elif stmt_start and (low.startswith(".") or low in ("insert_file",)):
                kind = "dir"
                stmt_start = False
            elif stmt_start and low in MNEM and re.match(r"[ \t]*=", text[pos:]) is None:
                kind = "mn"
                stmt_start = False
            elif low in REGS:
                kind = "reg"
                stmt_start = False
            elif re.fullmatch(r"ac[0-5]", low):
                kind = "acc"
                stmt_start = False
            else:
                kind = "sym"
                stmt_start = False
        elif kind == "num":
            if t.endswith("$"):
                kind = "localsym"
            if stmt_start and text[pos:pos + 1] == ":":
                kind = "labeldef"
            stmt_start = False
        elif kind == "punct" and t == ":":
            stmt_start = True  # a statement may follow a label on the same line
        elif kind == "punct" and t in "{}":
            stmt_start = True
        elif kind not in ("sp",):
            stmt_start = False
        toks.append([kind, t, meta])
    # pair up arithmetic groups < >
    stack = []
    for i, tk in enumerate(toks):
        if tk[0] == "punct" and tk[1] == "<":
            stack.append(i)
        elif tk[0] == "punct" and tk[1] == ">" and stack:
            j = stack.pop()
            toks[j] = ["go", "<", i]
            toks[i] = ["gc", ">", j]
    return toks


def render(toks):
    return "".join(t[1] for t in toks)


def num_value(t):
    s = t.lower()
    if s.startswith("0x"):
        return int(s[2:], 16)
    if s.startswith("0o"):
        return int(s[2:], 8)
    if s.startswith("0b"):
        return int(s[2:], 2)
    if s.startswith("^x"):
        return int(s[2:], 16)
    if s.startswith("^o"):
        return int(s[2:], 8)
    if s.startswith("^b"):
        return int(s[2:], 2)
    if s.startswith("^d"):
        return int(s[2:], 10)
    if s.endswith("."):
        return int(s[:-1])
    return int(s, 8)


def radix_forms(v):
    return ["%o" % v, "%d." % v, "0x%x" % v, "^X%x" % v, "0o%o" % v, "^O%o" % v, "0b%s" % bin(v)[2:], "^B%s" % bin(v)[2:], "^D%d" % v]


def branch_operand_start(toks, i):
    """is token i the first token of a branch/sob target operand (a bare number there means a local label)"""
    j = i - 1
    while j >= 0 and toks[j][0] == "sp":
        j -= 1
    if j >= 0 and toks[j][0] == "mn" and isa.T[toks[j][1].lower()][0] in ("B",):
        return True
    if j >= 0 and toks[j][1] == ",":
        k = j - 1
        while k >= 0 and toks[k][0] != "mn" and toks[k][0] != "nl":
            k -= 1
        if k >= 0 and toks[k][0] == "mn" and isa.T[toks[k][1].lower()][0] == "SOB":
            return True
    return False


def at_statement_start(toks, i):
    """token i is the first token of a statement (an implicit word list): the previous line's expression would absorb a
    leading operator-like spelling ('^X3' reads as '... ^ X3', '(6+1)' as a call, '-1' as a subtraction)"""
    j = i - 1
    while j >= 0 and toks[j][0] == "sp":
        j -= 1
    return j < 0 or toks[j][0] == "nl" or (toks[j][0] == "punct" and toks[j][1] in ":{")


def whole_operand(toks, i, j):
    """the group toks[i]..toks[j] is a complete operand (or a complete immediate / index offset): its brackets are redundant"""
    a = i - 1
    while a >= 0 and toks[a][0] == "sp":
        a -= 1
    b = j + 1
    while b < len(toks) and toks[b][0] == "sp":
        b += 1
    before = a >= 0 and (toks[a][0] in ("mn", "dir") or toks[a][1] in (",", "#"))
    after = b >= len(toks) or toks[b][0] == "nl" or toks[b][1] in (",", "}", "(")
    return before and after


def sites(toks):
    """all (family, site index, variant) rewrites applicable to this token list"""
    out = []
    for i, (kind, t, meta) in enumerate(toks):
        if kind in ("mn", "dir", "reg", "sym", "labeldef", "acc") and t.lower() != t.upper():
            fam = {"mn": "case-mnemonic", "dir": "case-directive", "reg": "case-register", "acc": "case-register"}.get(kind, "case-symbol")
            out.append((fam, i, "upper"))
            if len(t) > 2:
                out.append((fam, i, "mixed"))
        if kind == "num" or (kind == "caret" and t[1] in "xobdXOBD"):
            if t.lower() != t.upper():
                out.append(("case-radix", i, "swap"))
            if not branch_operand_start(toks, i):
                v = num_value(t)
                for f in radix_forms(v):
                    if f.lower() != t.lower() and not (f.startswith("^") and at_statement_start(toks, i)):
                        out.append(("radix", i, f))
        if kind == "caret" and t[1] in "rRcC":
            out.append(("case-radix", i, "swap"))
        if kind == "sp":
            out.append(("ws", i, "tab"))
            out.append(("ws", i, "double"))
        if kind == "nl":
            out.append(("ws", i, "blankline"))
            out.append(("comment", i, "trailing"))
            out.append(("comment", i, "fullline"))
            if i and toks[i - 1][0] not in ("sp", "nl", "str") and toks[i - 1][1] not in ("{",):
                out.append(("comment", i, "glued"))   # no blank between the last token and the ';'

        if kind == "punct" and t == ",":
            out.append(("ws", i, "space-after"))
            out.append(("ws", i, "space-before"))
        if kind == "go" and not at_statement_start(toks, i):
            out.append(("group", i, "paren"))
            out.append(("group", i, "caret"))
        if kind == "go" and not at_statement_start(toks, i) and whole_operand(toks, i, meta):
            out.append(("ungroup", i, "drop"))
        if kind == "reg":
            n = REGS[t.lower()]
            for f in ("r%d" % n, "%%%d" % n) + (("sp",) if n == 6 else ()) + (("pc",) if n == 7 else ()):
                if f != t.lower():
                    out.append(("register", i, f))
        if kind in ("mn", "dir") and t.lower() in SYN:
            for s in SYN[t.lower()]:
                out.append(("synonym", i, s))
        if kind == "mn" and t.lower() in ("push", "pop", "call", "ret", "return", "callr"):
            out.append(("pseudo", i, "expand"))
        if kind == "dir" and t.lower() in (".word", ".dw") and implicit_ok(toks, i):
            out.append(("implicit-word", i, "drop"))
        if kind == "punct" and t == "(" and i + 2 < len(toks) and toks[i + 1][0] == "reg" and toks[i + 2][1] == ")":
            prev = toks[i - 1] if i else ["nl", "\n", None]
            nxt = toks[i + 3] if i + 3 < len(toks) else ["nl", "\n", None]
            if prev[0] == "sp" and (nxt[0] in ("nl", "sp") or nxt[1] == ","):
                pp = toks[i - 2] if i >= 2 else ["nl", "", None]
                if pp[0] in ("mn",) or pp[1] == ",":
                    out.append(("legacy-deferred", i, "at"))
    return out


def implicit_ok(toks, i):
    """'.word LIST' may be written as 'LIST' when the list cannot be mistaken for an instruction"""
    j = i + 1
    while j < len(toks) and toks[j][0] == "sp":
        j += 1
    if j >= len(toks):
        return False
    first = toks[j]
    if first[0] == "num" or first[0] == "go":
        return True
    if first[0] == "sym":
        # a list that starts with a constant defined above it ('name = ...' earlier in the same file) is an implicit word list too
        before = "".join(t[1] for t in toks[:i])
        return bool(re.search(r"(?mi)^[ \t]*%s[ \t]*==?[^=]" % re.escape(first[1]), before))
    return False


def apply(toks, site):
    fam, i, var = site
    toks = [list(t) for t in toks]
    kind, t, meta = toks[i]
    if fam.startswith("case-") and fam != "case-radix":
        toks[i][1] = t.upper() if var == "upper" else "".join(c.upper() if n % 2 else c.lower() for n, c in enumerate(t))
    elif fam == "case-radix":
        toks[i][1] = t.swapcase()
    elif fam == "radix":
        toks[i][1] = var
    elif fam == "ws":
        if var == "tab":
            toks[i][1] = "\t"
        elif var == "double":
            toks[i][1] = t + " "
        elif var == "blankline":
            toks[i][1] = "\n\n"
        elif var == "space-after":
            toks[i][1] = ",  "
        elif var == "space-before":
            toks[i][1] = " ,"
    elif fam == "comment":
        toks[i][1] = {"trailing": " ; a 'comment' with \"quotes\", <1> and r0 mov\n", "glued": ";glued, 'comment' <2>\n"}.get(var, "\n; full-line comment: .word 1, 2 (r0)+\n")
    elif fam == "group":
        j = meta
        if var == "paren":
            toks[i][1], toks[j][1] = "(", ")"
        else:
            inner = render(toks[i + 1:j])
            d = "?" if "/" in inner else "/"
            toks[i][1], toks[j][1] = "^" + d + " ", " " + d
    elif fam == "ungroup":
        toks[i][1], toks[meta][1] = "", ""
    elif fam == "register":
        toks[i][1] = var
    elif fam == "synonym":
        toks[i][1] = var
    elif fam == "pseudo":
        # rewrite the whole statement
        j = i + 1
        while j < len(toks) and toks[j][0] != "nl":
            j += 1
        operand = render(toks[i + 1:j]).strip()
        low = t.lower()
        new = {"push": "mov %s, -(sp)" % operand, "pop": "mov (sp)+, %s" % operand, "call": "jsr pc, %s" % operand,
               "callr": "jmp %s" % operand, "ret": "rts pc", "return": "rts pc"}[low]
        toks[i:j] = [["str", new, None]]
    elif fam == "implicit-word":
        toks[i][1] = ""
    elif fam == "legacy-deferred":
        toks[i][1] = "@"
        toks[i + 2][1] = ""
    return toks


def bound(tier):
    return "%d generated base programs: deviation %d at every site + %s family subsets; 21 practice programs x conservative families (singles, pairs, all)" % (
        len(BASE_PROGRAMS), 2 if tier == "thorough" else 1, "all 4096" if tier == "thorough" else "256")


FAMILIES = ["case-mnemonic", "case-directive", "case-register", "case-symbol", "case-radix", "radix", "ws", "comment", "group", "register",
            "synonym", "legacy-deferred"]


def cases(tier):
    for i in range(len(BASE_PROGRAMS) + len(MULTI)):
        yield {"k": "single", "prog": i}
        yield {"k": "subsets", "prog": i}
        if tier == "thorough":
            yield {"k": "pairs", "prog": i}
    for name in sorted(os.listdir(PRACTICE)):
        yield {"k": "practice", "name": name}


def ambiguous_start(text):
    """a line whose first token is '^...', '(' or '-' continues the previous line's expression (by design of the grammar);
    combinations of rewrites that create such a line are not generated"""
    return ambiguous_starts(text) > 0


def ambiguous_starts(text):
    """number of lines that continue the previous line's expression"""
    prev_open = False
    n = 0
    for ln in text.split("\n"):
        st = ln.strip()
        if st[:1] in ("^", "(", "-") and prev_open:
            n += 1
        code = st.split(";")[0].strip()
        if code:
            prev_open = not code.endswith((":", "{", "}"))
    return n


def outcome_key(o):
    return (o.status, o.base, o.code, tuple(o.error_kinds()))


def compare(r, base_out, text, key, case, fam, tree=TREE, files=None):
    ctx = [tuple(f) for f in case.get("ctx", [])]
    o = driver.assemble(files or (ctx + [("p.mac", text)]), tree=tree)
    r.states += 1
    r.trans += 1
    same = outcome_key(o) == outcome_key(base_out)
    r.ran(o.cls(), key=key, nontrivial=True)
    if not same:
        if o.status in ("crash", "hang", "silent-fail"):
            sig = "%s:%s" % (fam, o.cls())
        else:
            sig = "%s:%s-vs-%s" % (fam, base_out.status, o.status)
        r.violation(sig, "respelling (%s) changed the result" % fam, case, base_out.brief(), o.brief())
    return same


def apply_everywhere(toks, fams, variant_pick=0):
    """apply every site of the given families (one variant per site), right to left so indexes stay valid"""
    st = sites(toks)
    chosen = {}
    for fam, i, var in st:
        if fam in fams:
            chosen.setdefault((fam == "group", i), []).append((fam, i, var))
    out = toks
    for key in sorted(chosen, key=lambda k: -k[1]):
        opts = chosen[key]
        # never combine two rewrites of the same token
        out = apply(out, opts[(variant_pick + key[1]) % len(opts)])
    return out


def check(case, r, tier):
    k = case["k"]
    if k == "text":
        base = driver.assemble([tuple(f) for f in case.get("ctx", [])] + [("p.mac", case["base"])], tree=TREE)
        compare(r, base, case["text"], None, case, case["fam"])
        return
    if k in ("single", "pairs", "subsets"):
        if case["prog"] < len(BASE_PROGRAMS):
            ctx, text = [], BASE_PROGRAMS[case["prog"]]
        else:
            ctx, text = MULTI[case["prog"] - len(BASE_PROGRAMS)]
        ctxj = [list(f) for f in ctx]
        toks = lex(text)
        assert render(toks) == text
        base = driver.assemble(list(ctx) + [("p.mac", text)], tree=TREE)
        r.ran(base.cls(), key=("base", case["prog"]))
        if base.status != "ok":
            r.violation("base-program:" + base.cls(), "a generated base program does not assemble", {"k": "text", "base": text, "text": text, "fam": "base", "ctx": ctxj}, "ok", base.brief())
            return
        st = sites(toks)
        if k == "single":
            for site in st:
                new = render(apply(toks, site))
                compare(r, base, new, new, {"k": "text", "base": text, "text": new, "fam": site[0], "ctx": ctxj}, site[0])
        elif k == "pairs":
            for a, b in itertools.combinations(st, 2):
                if a[1] == b[1] or a[0] in ("pseudo", "group", "ungroup") or b[0] in ("pseudo", "group", "ungroup"):
                    continue
                hi, lo = (a, b) if a[1] > b[1] else (b, a)
                new = render(apply(apply(toks, hi), lo))
                if ambiguous_starts(new) > ambiguous_starts(text):
                    continue
                compare(r, base, new, new, {"k": "text", "base": text, "text": new, "fam": "%s+%s" % (lo[0], hi[0]), "ctx": ctxj}, "%s+%s" % (lo[0], hi[0]))
        else:
            fams = FAMILIES if tier == "thorough" else FAMILIES[:3] + ["case-symbol+case-radix", "radix", "ws+comment", "group", "register+synonym+legacy-deferred"]
            for mask in range(1, 1 << len(fams)):
                chosen = set()
                for b, f in enumerate(fams):
                    if mask >> b & 1:
                        chosen |= set(f.split("+"))
                new = render(apply_everywhere(toks, chosen, variant_pick=mask))
                if ambiguous_starts(new) > ambiguous_starts(text):
                    r.extra["combinations_skipped_as_line_merging"] += 1
                    continue
                compare(r, base, new, new, {"k": "text", "base": text, "text": new, "fam": "+".join(sorted(chosen)), "ctx": ctxj}, "+".join(sorted(chosen)))
        return
    if k == "practice":
        d = os.path.join(PRACTICE, case["name"])
        src = os.path.join(d, "code.mac")
        with open(src, encoding="utf-8") as f:
            text = f.read()
        from .c03 import assemble_file
        base = assemble_file(src, text)
        r.ran(base.cls(), key=("practice", case["name"]))
        if base.status != "ok":
            r.violation("practice-not-assembled", "practice program does not assemble", case, None, base.brief())
            return
        fams = ["case-ident", "ws-tab", "ws-double", "comment", "blankline", "register"]
        combos = [(f,) for f in fams] + list(itertools.combinations(fams, 2)) + [tuple(fams)]
        for combo in combos:
            new = practice_rewrite(text, set(combo))
            o = assemble_file(src, new)
            r.states += 1
            r.trans += 1
            r.ran(o.cls(), key=("practice", case["name"], combo))
            if (o.status, o.base, o.code) != (base.status, base.base, base.code):
                r.violation("practice:%s:%s" % ("+".join(combo), o.cls()), "respelling a practice program changed the result",
                            {"k": "practice-rewrite", "name": case["name"], "fams": list(combo)}, {"status": "ok", "len": len(base.code)}, o.brief())
        return


LINE_TOKEN = re.compile(r"""
    (?P<comment>;[^\n]*) |
    (?P<dq>"(?:[^"\\\n]|\\.)*") |
    (?P<ident>\.?[A-Za-z_$][A-Za-z0-9_$.]*) |
    (?P<num>\d[A-Za-z0-9_$.]*) |
    (?P<sp>[ \t]+) |
    (?P<other>.)
""", re.X)


def practice_rewrite(text, fams):
    """conservative line-based rewriter for real sources: never touches comments, double-quoted strings, anything on a line that
    contains a quote or slash-delimited string directive, or numbers"""
    out = []
    for ln in text.split("\n"):
        code = ln
        risky = ("'" in ln) or re.search(r"(?i)\.(ascii|asciz|rad50|include|title|error|ident|sbttl)|insert_file|make_", ln) is not None or '"' in ln or "^" in ln
        if risky:
            out.append(ln)
            continue
        parts = []
        for m in LINE_TOKEN.finditer(code):
            k, t = m.lastgroup, m.group(0)
            if k == "ident" and "case-ident" in fams:
                t = t.upper() if t.lower() == t else t.lower()
            if k == "ident" and "register" in fams and t.lower() in REGS and not parts_prev_is(parts, "%"):
                n = REGS[t.lower()]
                t = {"r": "%%%d" % n}.get("r") if t.lower().startswith("r") else ("r%d" % n)
            if k == "sp" and "ws-tab" in fams:
                t = "\t"
            if k == "sp" and "ws-double" in fams:
                t = t + " "
            parts.append(t)
        new = "".join(parts)
        if "comment" in fams and new.strip() and ";" not in new:
            new += " ; note"
        out.append(new)
        if "blankline" in fams:
            out.append("")
    return "\n".join(out)


def parts_prev_is(parts, ch):
    return bool(parts) and parts[-1].endswith(ch)
