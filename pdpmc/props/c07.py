"""C07 Errors fail the build; warnings never change it — E2 over planted fault sets x configurations (in-process CLI runs)."""
import re
import shutil
import itertools
from .. import driver, faults

ID = "C07"
LEVEL = "model_checking"
EXHAUSTIVE = True
CHUNK = 1
CASE_TIMEOUT = 600
RULE = ("planted-fault exploration through the command line: a catalogue of 53 error kinds (link-time, compile-time, parse-time non-critical "
        "and critical) and 10 warning kinds; every single fault at first/middle/last position of 3 base programs (one file, two linked "
        "files, fault inside an included file) x report formats x -W selections x output options; every pair of faults (thorough: every "
        "triple) ; configuration sweep: 14 representative programs x both report formats x 12 -W selections x 12 output options (with and "
        "without --lst), a sentinel file pre-created at every output path. Oracle: exit status != 0 <=> the fault set holds an error kind "
        "<=> an Error diagnostic was printed; on failure the directory snapshot is unchanged (nothing created, sentinels untouched); on "
        "success every selected output and listing exists; for one program the exit status, file set and file bytes are identical across "
        "all -W selections and both formats. Separate families: an image written to standard output under 8 spellings of '-o-.ext' x 5 -W selections x 2 formats (same bytes); unwritable output paths among several outputs; an unreadable input (missing, "
        "a directory, not UTF-8) at every position among 1-3 inputs x 3 output options x 2 formats. state = (program, fault "
        "set, configuration); transition = one planted fault or one configuration step; non-trivial = distinct state")
ASSUMPTIONS = ["message texts and the number of reports are not compared", "the in-process command-line driver is re-validated against fresh processes in C18"]

BASE_LINES = ["start:\tmov #start, r0", "\t.word 1, 2", "\tadd r1, r2", "lp:\tsob r3, lp", "\thalt"]
IMG = None
DEFAULT_W = ["implicit-operand", "not-implemented", "label-fixup", "excess-hash"]
NONDEFAULT_W = ["suspicious-name", "excess-quote", "missing-newline", "meta-typo", "legacy-deferred", "implicit-index"]
W_SELECTIONS = [[], ["-Wall"], ["-Wno-all"], ["-Wdefault"], ["-Wno-implicit-accumulator"], ["-Wno-default"]] + [["-Wno-" + w] for w in DEFAULT_W] + [["-W" + w] for w in NONDEFAULT_W[:4]]
OUTPUTS = [
    ("none", [], "", []),
    ("o-bin", ["-o", "x.bin"], "", ["x.bin"]),
    ("o-raw", ["-o", "x.raw"], "", ["x.raw"]),
    ("implicit", ["--implicit-bin"], "", ["m.bin"]),
    ("make-bin", [], "make_bin\n", ["m.bin"]),
    ("make-raw-wav", [], "make_raw \"r.raw\"\nmake_wav \"t.wav\"\n", ["r.raw", "t.wav"]),
]
FORMATS = ["graphical", "bare"]


def bound(tier):
    return "all singles x 3 positions x 3 base programs x 24 configurations; all %s; 14 programs x 2 formats x 12 -W selections x 12 output options" % (
        "pairs and triples" if tier == "thorough" else "pairs")


def plant(fault_ids, positions, layout, no_final_newline=False):
    """returns (tree, argv files). faults are inserted as tab-indented lines at the given positions of the base program"""
    lines = list(BASE_LINES)
    ins = sorted(zip(positions, fault_ids), key=lambda x: -x[0])
    tree = {}
    for pos, fid in ins:
        e = faults.BY_ID[fid]
        frag = ["\t" + l for l in e["text"].split("\n")]
        lines[pos:pos] = frag
        tree.update(e["tree"])
    text = "\n".join(lines) + ("" if no_final_newline else "\n")
    if layout == "one":
        tree["m.mac"] = text
        return tree, ["m.mac"]
    if layout == "two":
        tree["m.mac"] = "\tnop\nfirst::\tnop\n"
        tree["n.mac"] = text
        return tree, ["m.mac", "n.mac"]
    tree["m.mac"] = "\tnop\n\t.include \"inc.mac\"\n\tnop\n"
    tree["inc.mac"] = text
    return tree, ["m.mac"]


def cases(tier):
    ids = [e["id"] for e in faults.E]
    for fid in ids:
        yield {"k": "single", "fault": fid}
    errs = [e["id"] for e in faults.E]
    for i in range(0, len(errs)):
        yield {"k": "pairs", "first": errs[i]}
    if tier == "thorough":
        for a, b in itertools.combinations(errs, 2):
            yield {"k": "triples", "first": a, "second": b}
    for name in SWEEP:
        yield {"k": "sweep", "prog": name}
    yield {"k": "stdout-image"}
    yield {"k": "unwritable"}
    yield {"k": "inputs"}


BIG = "\t.blkb 177777\n\t.blkb 177777\n\tnop\n"
SWEEP = {
    "valid": [],
    "warn-default": ["w-implicit-operand"],
    "warn-nondefault": ["w-legacy-deferred"],
    "warn-many": ["w-not-implemented", "w-excess-hash", "w-meta-typo", "w-missing-newline", "w-suspicious-name"],
    "warn-parse": ["w-excess-quote"],
    "err-link": ["undef"],
    "err-compile": ["unknown-insn"],
    "err-parse": ["no-space"],
    "err-critical": ["bad-caret"],
    "err-late-size": ["blkb-neg"],
    "err-and-warn": ["w-implicit-operand", "word-oob"],
    "warn-then-critical": ["w-legacy-deferred", "unterminated-string"],
    "err-in-repeat": ["label-in-repeat"],
    "err-user": ["user-error"],
    "err-shares-warning-id-1": ["hash-in-meta"],
    "err-shares-warning-id-2": ["fp-bad-acc"],
}


def error_indications(out, fmt):
    if fmt == "bare":
        return len(re.findall(r": Error: ", out.stdout.decode("utf-8", "replace")))
    return len(re.findall(r"\x1b\[91mError\x1b\[0m in ", out.stderr))


def run(tree, files, fmt, wsel, output, lst, r, key, case, expect_error, want_bytes=None):
    oname, oargs, directives, opaths = output
    tree = dict(tree)
    main = files[-1] if False else "m.mac"
    tree[main] = tree[main] + directives
    lst_paths = []
    if lst and opaths:
        first = opaths[0]
        stem = first.rsplit(".", 1)[0] if "." in first else first
        lst_paths = [stem + ".lst", first + ".lst"]
    for p in opaths + lst_paths:
        tree[p] = "SENTINEL " + p
    argv = files + oargs + ["--report-format", fmt] + wsel + (["--lst"] if lst else [])
    out = driver.cli(argv, tree, keep=True)
    r.states += 1
    r.trans += 1
    probs = []
    try:
        failed = out.exit != 0
        if out.internal_error:
            # an internal compiler error is C08's subject; here it only counts as a failed run
            r.extra["runs_ending_in_internal_error"] += 1
        if out.exit not in (0, 1):
            probs.append(("exit-status", "exit status %r" % (out.exit,)))
        nerr = error_indications(out, fmt)
        if expect_error and not failed:
            probs.append(("error-but-success", "an error-severity fault was planted but the run succeeded (exit 0, %d Error lines)" % nerr))
        if not expect_error and failed:
            probs.append(("no-error-but-failure", "no error-severity fault, yet exit status %r; stderr: %s" % (out.exit, out.stderr[-300:])))
        if failed and nerr == 0 and not out.internal_error:
            probs.append(("failure-without-diagnostic", "exit status %r without any Error diagnostic" % (out.exit,)))
        if not failed and nerr > 0:
            probs.append(("diagnostic-without-failure", "%d Error diagnostics were printed but the exit status is 0" % nerr))
        if failed:
            if out.created() or out.modified() or out.deleted():
                probs.append(("files-touched-on-failure", "the run failed but created %s / modified %s" % (out.created(), out.modified())))
        else:
            for p in opaths:
                if p not in out.modified():
                    probs.append(("output-missing-on-success", "the run succeeded but %s was not written" % p))
            if lst and opaths and not any(p in out.modified() for p in lst_paths):
                probs.append(("listing-missing-on-success", "the run succeeded with --lst but no listing was written"))
            extra = [p for p in out.created()]
            if extra:
                probs.append(("unexpected-file", "files created that nobody asked for: %s" % extra))
        def content_id(p):
            if p.endswith(".lst"):   # the listing names the source files by absolute path: normalise the scratch root
                return driver.read_file(out.root, p).replace(out.root.encode(), b"<root>")
            return out.after[p][:2]
        result = (out.exit, tuple(sorted(out.created())), tuple(sorted((p, content_id(p)) for p in out.modified())))
        r.ran("fail" if failed else "ok", key=key)
        seen = set()
        for sig, what in probs:
            if sig not in seen:
                seen.add(sig)
                r.violation("%s:%s" % (sig, phase_of(case)), what, dict(case, fmt=fmt, w=wsel, output=oname, lst=lst), None, {"exit": out.exit, "stderr_tail": out.stderr[-200:]})
        return result
    finally:
        shutil.rmtree(out.root, ignore_errors=True)


def phase_of(case):
    ids = case.get("faults") or []
    ph = sorted(set(faults.BY_ID[i]["phase"] + ("" if faults.BY_ID[i]["sev"] == "error" else "-warning") for i in ids))
    return "+".join(ph) or "valid"


def stdout_image(r):
    """the image written to standard output ('-o -', '-o-.ext') is the same bytes under every -W selection and both report formats"""
    src = "start:\tmov #start, r0\n\t.word\n\tclr @r0\n\thalt\n"     # two warnings (one default, one not)
    for oname in ("-", "-.bin", "-.raw", "-.BIN", "-.Bin", "-.rom", "-.sav", "-.x"):
        seen = {}
        for fmt in FORMATS:
            for wsel in ([], ["-Wall"], ["-Wno-all"], ["-Wno-implicit-operand"], ["-Wlegacy-deferred"]):
                co = driver.cli(["m.mac"] + (["-o", "-"] if oname == "-" else ["-o" + oname]) + ["--report-format", fmt] + wsel, {"m.mac": src}, keep=True)
                try:
                    seen[(fmt, tuple(wsel))] = (co.exit, bytes(co.stdout) if fmt == "graphical" or True else None)
                    r.ran("exit%s" % co.exit, key=("stdout-image", oname, fmt, tuple(wsel)))
                finally:
                    shutil.rmtree(co.root, ignore_errors=True)
        ref_key = ("graphical", ("-Wno-all",))
        ref = seen[ref_key]
        if ref[0] != 0 or len(ref[1]) < 10:
            r.violation("stdout-image-missing", "-o%s: exit %s and %d bytes on standard output" % (oname, ref[0], len(ref[1])), {"k": "stdout-image"}, "exit 0 and an image", {"exit": ref[0]})
            continue
        for k2, got in seen.items():
            if got != ref:
                r.violation("stdout-image-depends-on-options", "-o%s: exit status / bytes on standard output under %s differ from those under %s" % (oname, k2, ref_key),
                            {"k": "stdout-image"}, {"exit": ref[0], "stdout": ref[1].hex()[:120]}, {"exit": got[0], "stdout": got[1].hex()[:120]})
                break


def check(case, r, tier):
    if case.get("k") == "stdout-image":
        return stdout_image(r)
    k = case["k"]
    if k == "replay":
        tree, files = plant(case["faults"], case["positions"], case["layout"], no_final_newline=case.get("nonl", False))
        exp = any(faults.BY_ID[i]["sev"] == "error" for i in case["faults"])
        out = [o for o in OUTPUTS if o[0] == case["output"]][0]
        run(tree, files, case["fmt"], case["w"], out, case["lst"], r, None, case, exp)
        return
    if k == "single":
        fid = case["fault"]
        e = faults.BY_ID[fid]
        exp = e["sev"] == "error"
        for layout in ("one", "two", "include"):
            for pos in (0, 2, 5, "eof"):
                nonl = pos == "eof"
                pos = 5 if nonl else pos
                tree, files = plant([fid], [pos], layout, no_final_newline=nonl)
                c = {"k": "replay", "faults": [fid], "positions": [pos], "layout": layout, "nonl": nonl}
                for fmt in FORMATS:
                    for wsel in ([], ["-Wall"], ["-Wno-all"], ["-Wno-implicit-accumulator", "-Wno-excess-hash"]):
                        for oi, output in enumerate(OUTPUTS[:4] if (layout != "one" or nonl) else OUTPUTS):
                            lst = (oi + pos) % 2 == 0
                            run(tree, files, fmt, wsel, output, lst, r, (fid, layout, pos, nonl, fmt, tuple(wsel), output[0], lst), c, exp)
        return
    if k in ("pairs", "triples"):
        ids = [e["id"] for e in faults.E]
        first = case["first"]
        fixed = [first] + ([case["second"]] if k == "triples" else [])
        start = ids.index(fixed[-1]) + 1
        for other in ids[start:]:
            combo = fixed + [other]
            exp = any(faults.BY_ID[i]["sev"] == "error" for i in combo)
            positions = [0, 5, 2][:len(combo)]
            tree, files = plant(combo, positions, "one")
            c = {"k": "replay", "faults": combo, "positions": positions, "layout": "one"}
            n = ids.index(other)
            fmt = FORMATS[n % 2]
            output = OUTPUTS[1 + n % 5]
            run(tree, files, fmt, [["-Wall"], [], ["-Wno-all"]][n % 3], output, n % 2 == 0, r, (tuple(combo), fmt, output[0]), c, exp)
        return
    if k == "sweep":
        fids = SWEEP[case["prog"]]
        exp = any(faults.BY_ID[i]["sev"] == "error" for i in fids)
        positions = [0, 5, 2, 3, 1][:len(fids)]
        tree, files = plant(fids, positions, "one")
        c = {"k": "replay", "faults": fids, "positions": positions, "layout": "one"}
        for output in OUTPUTS:
            for lst in (False, True):
                results = {}
                for fmt in FORMATS:
                    for wsel in W_SELECTIONS:
                        res = run(tree, files, fmt, wsel, output, lst, r, (case["prog"], fmt, tuple(wsel), output[0], lst), c, exp)
                        results[(fmt, tuple(wsel))] = res
                distinct = set(results.values())
                if len(distinct) > 1:
                    a = sorted(results.items(), key=lambda kv: repr(kv[1]))
                    r.violation("configuration-changes-result:%s" % phase_of(c),
                                "exit status / files written / their bytes differ between report formats or -W selections (output %s, lst %s)" % (output[0], lst),
                                dict(c, output=output[0], lst=lst, fmt=a[0][0][0], w=list(a[0][0][1])), repr(a[0]), repr(a[-1]))
        return
    if k == "unwritable":
        # an output path that cannot be written, among several outputs: the run fails, so nothing may be created or modified
        prog = "\n".join(BASE_LINES) + "\n"
        variants = [
            ("make-first-bad", prog + "make_bin \"nodir/x.bin\"\nmake_raw \"b.raw\"\n", [], ["b.raw"]),
            ("make-middle-bad", prog + "make_raw \"a.raw\"\nmake_bin \"nodir/x.bin\"\nmake_raw \"b.raw\"\n", [], ["a.raw", "b.raw"]),
            ("make-last-bad", prog + "make_raw \"a.raw\"\nmake_bin \"nodir/x.bin\"\n", [], ["a.raw"]),
            ("o-bad-with-make", prog + "make_raw \"a.raw\"\n", ["-o", "nodir/x.bin"], ["a.raw"]),
            ("o-bad-alone", prog, ["-o", "nodir/x.bin"], []),
            ("lst-bad", prog, ["-o", "x.bin", "--lst"], ["x.bin"]),
            # an image too long for the 16-bit length field of bin / tape headers
            ("oversize-o-bin", BIG, ["-o", "x.bin"], ["x.bin"]),
            ("oversize-make-bin", BIG + "make_bin\n", [], ["m.bin"]),
            ("oversize-make-wav", BIG + "make_turbo_wav\n", ["--lst"], ["m.wav"]),
            ("oversize-wav-then-raw", BIG + "make_wav\nmake_raw \"big.raw\"\n", [], ["m.wav", "big.raw"]),
        ]
        for name, text, oargs, others in variants:
            for fmt in FORMATS:
                tree = {"m.mac": text}
                for p in others:
                    tree[p] = "SENTINEL"
                if name == "lst-bad":
                    tree["x.lst/keep"] = ""   # the listing path is a directory
                out = driver.cli(["m.mac"] + oargs + ["--report-format", fmt], tree, keep=True)
                r.states += 1
                r.trans += 1
                try:
                    touched = out.created() + out.modified()
                    ok = out.exit != 0 and not touched and not out.internal_error
                    r.ran("fail-clean" if ok else "bad", key=("unwritable", name, fmt))
                    if out.exit == 0:
                        r.violation("unwritable:success", "an output could not be written but the exit status is 0", {"k": "unwritable-one", "name": name, "fmt": fmt}, None, out.stderr[-300:])
                    elif out.internal_error:
                        r.violation("unwritable:internal-error", "internal compiler error on an unwritable path", {"k": "unwritable-one", "name": name, "fmt": fmt}, None, out.stderr[-300:])
                    elif touched:
                        r.violation("unwritable:%s:files-touched-on-failure" % name,
                                    "%s: the run failed (exit %r) but wrote %s" % (name, out.exit, touched), {"k": "unwritable-one", "name": name, "fmt": fmt}, [], touched)
                finally:
                    shutil.rmtree(out.root, ignore_errors=True)
        return
    if k == "inputs":
        # an input file that cannot be read (missing, a directory, not UTF-8) at every position among 1-3 inputs: the run must fail
        # and write nothing, whatever the other inputs are
        good = ["a.mac", "b.mac", "c.mac"]
        tree0 = {"a.mac": "start:\tmov #start, r0\n", "b.mac": "\t.word 1, 2\n", "c.mac": "\thalt\n", "dir.mac/keep": "", "bin.mac": b"\xff\xfe\x00nop\n"}
        bads = [("missing", "nofile.mac"), ("directory", "dir.mac"), ("not-utf8", "bin.mac")]
        for n in (1, 2, 3):
            for pos in range(n):
                for bname, bpath in bads:
                    files = good[:n - 1]
                    files.insert(pos, bpath)
                    for oname, oargs, opaths in (("o-bin", ["-o", "x.bin"], ["x.bin"]), ("implicit", ["--implicit-bin"], []), ("o-bin-lst", ["-o", "x.bin", "--lst"], ["x.bin", "x.lst"])):
                        for fmt in FORMATS:
                            tree = dict(tree0)
                            for pth in opaths:
                                tree[pth] = "SENTINEL"
                            out = driver.cli(files + oargs + ["--report-format", fmt], tree, keep=True)
                            r.states += 1
                            r.trans += 1
                            try:
                                touched = out.created() + out.modified()
                                c = {"k": "inputs-one", "files": files, "oargs": oargs, "fmt": fmt, "sentinels": opaths}
                                okk = out.exit not in (0, None) and not touched and not out.internal_error
                                r.ran("fail-clean" if okk else "bad", key=("inputs", tuple(files), oname, fmt))
                                if out.exit == 0:
                                    r.violation("unreadable-input:%s:success" % bname, "input %s (%s) cannot be read but the exit status is 0 (inputs %s)" % (bpath, bname, files), c, "exit != 0", out.stderr[-300:])
                                elif out.internal_error:
                                    r.violation("unreadable-input:%s:internal-error" % bname, "internal compiler error", c, None, out.stderr[-300:])
                                elif touched:
                                    r.violation("unreadable-input:%s:files-touched-on-failure" % bname, "the run failed but wrote %s" % touched, c, [], touched)
                            finally:
                                shutil.rmtree(out.root, ignore_errors=True)
        return
    if k == "inputs-one":
        check({"k": "inputs"}, r, tier)
        return
    if k == "unwritable-one":
        check({"k": "unwritable"}, r, tier)
        return
