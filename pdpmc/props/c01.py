"""C01 Machine-code fidelity of every instruction form — E1 space enumeration.
Every mnemonic x every operand-form combination of its class is assembled by the real
assembler and the emitted words are decoded by the independent decoder pdpmc/ref/isa.py."""
import itertools
from .. import driver
from ..ref import isa, expr

ID = "C01"
LEVEL = "exploration"
EXHAUSTIVE = True
CHUNK = 1
CASE_TIMEOUT = 600
RULE = ("complete product per mnemonic class: every one of the 252 mnemonics x every operand form its class admits (8 modes x 8 "
        "registers with index words from {0,2,-2,forward symbol}; #v, @#v, v, @v with v in {0,1,177777,-1,100000,backward label,"
        "forward label}; explicit (pc)+ forms followed by their data word; ac0-ac5 / ac0-ac3; r0-r7; all values of spl/mark/xfc/"
        "emt/trap/sys fields; all 256 branch displacements; sob x 8 registers x 64 displacements) x link bases; quick pairs the 12 "
        "syntactic forms of double-operand instructions over 8 register pairings x 2 values, thorough takes the full 108 x 108 "
        "form product at 3 bases. Statements are assembled ~400 per program and decoded sequentially; any deviation re-runs every "
        "statement of that program alone. Each mnemonic/form also runs as a one-instruction program. Further families: 22 symbols named "
        "like registers/accumulators (ac1sav, r10, spx, ...) x 22 operand places of every operand-stub class x defined before/after x 2 "
        "bases; operand values written as flat compound expressions 'a op1 b op2 c' for all 144 operator pairs x 3 prefixes x 9 operand "
        "places (index, deferred index, immediate, absolute, relative, FP) x symbols before/after, value by the reference expression "
        "reader; statements inside '.repeat'; '@(rN)' (index deferred with an implicit index word 0) in 10 operand places x 7 registers x 2-3 register spellings x bases. Non-trivial = distinct "
        "(base, statement, expected decode) triple")
ASSUMPTIONS = ["reference instruction table and decoder pdpmc/ref/isa.py (DESIGN.md Appendix A, handbook vectors in selftest)",
               "registers are spelled rN and accumulators acN here; other spellings are C10's subject"]
BASES = [None, 0, 0o157776]
V = [0, 1, 0o177777, -1, 0o100000, "bk", "fw"]
V_IDX = [0, 2, -2, "fs"]
PAIRINGS = [(0, 0), (1, 2), (2, 1), (3, 7), (7, 3), (6, 5), (5, 6), (4, 4)]
B = 400


# symbols whose names merely begin like (or contain) a register or accumulator name
LOOKALIKES = ["ac1sav", "ac0.t", "AC3_OLD", "ac4x", "ac6", "ac", "acc", "r1x", "r10", "R7B", "r0.1", "spx", "sp2", "pcx", "pc.0", "xr1", "xsp", "bac1", "r", "r8", "a0", "ac12"]
# one consumer per operand-stub class and position: (mnemonic, class, opcode base, operand texts with S for the symbol, spec builder)
LOOK_FORMS = [
    ("clr", "D", 0o5000, "clr S", lambda v: [["gen", 6, 7, "rel", v]]),
    ("clr", "D", 0o5000, "clr @S", lambda v: [["gen", 7, 7, "rel", v]]),
    ("clr", "D", 0o5000, "clr S(r1)", lambda v: [["gen", 6, 1, "val", v]]),
    ("clr", "D", 0o5000, "clr @S(r2)", lambda v: [["gen", 7, 2, "val", v]]),
    ("clr", "D", 0o5000, "clr @#S", lambda v: [["gen", 3, 7, "val", v]]),
    ("mov", "SD", 0o10000, "mov S, r0", lambda v: [["gen", 6, 7, "rel", v], ["gen", 0, 0, None, None]]),
    ("mov", "SD", 0o10000, "mov r0, S", lambda v: [["gen", 0, 0, None, None], ["gen", 6, 7, "rel", v]]),
    ("mov", "SD", 0o10000, "mov #S, r3", lambda v: [["gen", 2, 7, "val", v], ["gen", 0, 3, None, None]]),
    ("mov", "SD", 0o10000, "mov S, S", lambda v: [["gen", 6, 7, "rel", v], ["gen", 6, 7, "rel", v]]),
    ("jsr", "RD", 0o4000, "jsr r5, S", lambda v: [["reg", 5], ["gen", 6, 7, "rel", v]]),
    ("xor", "RD", 0o74000, "xor r2, S", lambda v: [["reg", 2], ["gen", 6, 7, "rel", v]]),
    ("mul", "SR", 0o70000, "mul S, r1", lambda v: [["gen", 6, 7, "rel", v], ["reg", 1]]),
    ("tstf", "FD", 0o170500, "tstf S", lambda v: [["gen", 6, 7, "rel", v]]),
    ("negd", "FD", 0o170700, "negd @S", lambda v: [["gen", 7, 7, "rel", v]]),
    ("ldf", "FSA", 0o172400, "ldf S, ac0", lambda v: [["gen", 6, 7, "rel", v], ["ac", 0]]),
    ("ldf", "FSA", 0o172400, "ldf S(r1), ac2", lambda v: [["gen", 6, 1, "val", v], ["ac", 2]]),
    ("cmpf", "FSA", 0o173400, "cmpf #S, ac1", lambda v: [["gen", 2, 7, "val", v], ["ac", 1]]),
    ("stf", "AFD", 0o174000, "stf ac1, S", lambda v: [["ac", 1], ["gen", 6, 7, "rel", v]]),
    ("stexp", "AD", 0o175000, "stexp ac1, S", lambda v: [["ac", 1], ["gen", 6, 7, "rel", v]]),
    ("ldexp", "SA", 0o176400, "ldexp S, ac3", lambda v: [["gen", 6, 7, "rel", v], ["ac", 3]]),
    ("push", None, None, "push S", None), ("call", None, None, "call S", None),
]


def bound(tier):
    return ("complete operand-form product for all classes; double-operand: %s; bases %s" % (
        "108x108 forms x 3 bases" if tier == "thorough" else "12x12 syntactic forms x 8 register pairings x 2 values, default base (+3 bases for single forms)",
        [0o1000, 0, 0o157776]))


def vtext(v):
    if isinstance(v, str):
        return v
    return ("-%o" % -v) if v < 0 else "%o" % v


def general(mode, reg, v, fp=False):
    """one addressing form -> (text, spec, trailer words)"""
    rn = "r%d" % reg
    if mode == 0:
        if fp:
            return ("ac%d" % reg, ["gen", 0, reg, None, None], [])
        return (rn, ["gen", 0, reg, None, None], [])
    if mode == 1:
        return ("(%s)" % rn, ["gen", 1, reg, None, None], [])
    if mode in (2, 3):
        t = ("@" if mode == 3 else "") + "(%s)+" % rn
        if reg == 7:  # explicit (pc)+ : the programmer supplies the data word himself
            w = (0o1234 + mode) & 0xFFFF
            return (t, ["gen", mode, 7, "val", w], [w])
        return (t, ["gen", mode, reg, None, None], [])
    if mode in (4, 5):
        return (("@" if mode == 5 else "") + "-(%s)" % rn, ["gen", mode, reg, None, None], [])
    return (("@" if mode == 7 else "") + "%s(%s)" % (vtext(v), rn), ["gen", mode, reg, "val", v], [])


def pcform(kind, v):
    if kind == "imm":
        return ("#" + vtext(v), ["gen", 2, 7, "val", v], [])
    if kind == "abs":
        return ("@#" + vtext(v), ["gen", 3, 7, "val", v], [])
    if kind == "rel":
        return (vtext(v), ["gen", 6, 7, "rel", v], [])
    return ("@" + vtext(v), ["gen", 7, 7, "rel", v], [])


def forms12(reg, vi, fp=False):
    out = [general(m, reg if not (fp and m == 0) else reg % 6, V_IDX[(vi + m) % 4], fp) for m in range(8)]
    out += [pcform(k, V[(vi + j) % 7]) for j, k in enumerate(("imm", "abs", "rel", "reld"))]
    return out


def forms_full(fp=False):
    out = []
    for m in range(8):
        for reg in range(8):
            if fp and m == 0 and reg > 5:
                continue
            out.append(general(m, reg, V_IDX[(reg + m) % 4], fp))
    for m in (6, 7):
        for reg in (1, 7):
            for v in V_IDX:
                f = general(m, reg, v, fp)
                if f not in out:
                    out.append(f)
    for k in ("imm", "abs", "rel", "reld"):
        for v in V:
            out.append(pcform(k, v))
    return out


def stmt(mn, ops):
    """ops: list of (text, spec, trailer)"""
    for i, o in enumerate(ops):
        # an explicit (pc)+ operand takes the word that follows the instruction word; that is only
        # well defined here when no later operand emits an extension word of its own
        if o[2] and any(len(p[1]) > 3 and p[1][3] is not None for p in ops[i + 1:]):
            return None, None
    text = mn + (" " + ", ".join(o[0] for o in ops) if ops else "")
    for o in ops:
        for w in o[2]:
            text += "\n.word %o" % w
    return text, [o[1] for o in ops]


def regop(n):
    return ("r%d" % n, ["reg", n], [])


def acop(n):
    return ("ac%d" % n, ["ac", n], [])


def statements(mn, tier, singles=False):
    """all statements for one mnemonic: list of (text, [cls, base, opspecs])"""
    cls, base, exp = isa.T[mn]
    out = []

    def add(ops, fixed_pre=(), fixed_post=()):
        text, specs = stmt(mn, ops)
        if text is None:
            return
        out.append((text, [cls, base, list(fixed_pre) + specs + list(fixed_post)]))

    full = tier == "thorough" and not singles
    if exp == "ret":
        add([], fixed_pre=[["reg", 7]])
    elif cls == "Z":
        add([])
    elif cls == "R":
        for n in range(8):
            add([regop(n)])
    elif cls in ("D", "FD") or exp in ("pop", "push", "call"):
        fp = cls == "FD"
        fl = forms12(3, 0, fp) if singles else forms_full(fp)
        for f in fl:
            if exp == "pop":
                add([f], fixed_pre=[["gen", 2, 6, None, None]])
            elif exp == "push":
                add([f], fixed_post=[["gen", 4, 6, None, None]])
            elif exp == "call":
                add([f], fixed_pre=[["reg", 7]])
            else:
                add([f])
    elif cls == "SD":
        if singles:
            f = forms12(2, 1)
            for i in range(12):
                add([f[i], f[(i * 5 + 3) % 12]])
        elif full:
            fl = forms_full()
            for a in fl:
                for b in fl:
                    add([a, b])
        else:
            for (rs, rd) in PAIRINGS:
                for vi in (0, 3):
                    fs_, fd_ = forms12(rs, vi), forms12(rd, vi + 2)
                    for a in fs_:
                        for b in fd_:
                            add([a, b])
    elif cls in ("RD", "SR"):
        fl = forms12(5, 2) if singles else forms_full()
        regs = [4] if singles else range(8)
        for n in regs:
            for f in fl:
                add([regop(n), f] if cls == "RD" else [f, regop(n)])
    elif cls == "B":
        ds = [-128, -1, 0, 127] if singles else range(-128, 128)
        for d in ds:
            t = 2 + 2 * d
            txt = "." if t == 0 else (".+%o" % t if t > 0 else ".-%o" % -t)
            add([(txt, ["disp", d], [])])
    elif cls == "SOB":
        for n in ([2] if singles else range(8)):
            for f in ([0, 1, 63] if singles else range(64)):
                t = 2 - 2 * f
                txt = "." if t == 0 else (".+%o" % t if t > 0 else ".-%o" % -t)
                add([regop(n), (txt, ["disp", -f], [])])
    elif cls in ("N3", "N6", "N8"):
        top = {"N3": 8, "N6": 64, "N8": 256}[cls]
        for n in ([0, top - 1] if singles else range(top)):
            add([("%o" % n, ["num", n], [])])
            if not singles and n in (1, top - 1):
                add([("%d." % n, ["num", n], [])])
                add([("0x%x" % n, ["num", n], [])])
    elif cls in ("FSA", "AFD", "AD", "SA"):
        fp = cls in ("FSA", "AFD")
        fl = forms12(1, 4, fp) if singles else forms_full(fp)
        for n in ([2] if singles else range(4)):
            for f in fl:
                add([f, acop(n)] if cls in ("FSA", "SA") else [acop(n), f])
    else:
        raise AssertionError(cls)
    return out


def cases(tier):
    yield {"k": "keyset"}
    names = sorted(isa.T)
    for mn in names:
        n = len(statements(mn, tier))
        cls = isa.T[mn][0]
        if tier == "thorough":
            bases = BASES
        else:
            bases = BASES if cls != "SD" or isa.T[mn][2] else [None]
        for b in bases:
            for part in range(0, n, B):
                yield {"k": "mn", "mn": mn, "base": b, "part": part}
    # one-instruction programs
    for mn in names:
        for b in BASES:
            yield {"k": "singles", "mn": mn, "base": b}
    yield {"k": "in-repeat"}
    for i in range(len(LOOKALIKES)):
        yield {"k": "lookalike", "i": i}
    for op1 in expr.INFIX:
        yield {"k": "operand-expr", "op1": op1}
    yield {"k": "implicit-index"}
    # negative trap numbers (accepted today as value mod 256): if accepted, the field must be v mod 256
    yield {"k": "negnum"}


def program(base, texts):
    pre = (".link %o\n" % base if base is not None else "") + "bk:\n"
    return pre + "".join(t + "\n" for t in texts) + "fw:\nfs = 1234\n"


def resolve(v, env):
    if isinstance(v, list):  # [symbol, offset]
        return (env[v[0]] + v[1]) & 0xFFFF
    return (env[v] if isinstance(v, str) else v) & 0xFFFF


def match(o, spec, env, base_addr):
    k = spec[0]
    if k == "reg":
        return "mode" not in o and o.get("reg") == spec[1]
    if k == "ac":
        return o.get("ac") == spec[1]
    if k == "num":
        return o.get("num") == spec[1]
    if k == "disp":
        return o.get("disp") == spec[1]
    _g, mode, reg, extkind, value = spec
    if o.get("mode") != mode or o.get("reg") != reg:
        return False
    if extkind is None:
        return o["ext"] is None
    if o["ext"] is None:
        return False
    if extkind == "val":
        return o["ext"] == resolve(value, env)
    return isa.effective_address(o, base_addr) == resolve(value, env)


def decode_check(code, base_addr, specs):
    """decode sequentially; returns index of first statement that does not match (or None), and a description"""
    try:
        words = isa.to_words(code)
    except isa.DecodeError as ex:
        return 0, str(ex)
    env = {"bk": base_addr, "fw": base_addr + len(code), "fs": 0o1234}
    pos = 0
    for i, (cls, opbase, ops) in enumerate(specs):
        try:
            c, b, dec, nxt = isa.decode(words, pos)
        except isa.DecodeError as ex:
            return i, str(ex)
        if (c, b) != (cls, opbase):
            return i, "decodes as operation %s %06o, expected %s %06o" % (c, b, cls, opbase)
        if len(dec) != len(ops):
            return i, "operand count"
        for j, (o, s) in enumerate(zip(dec, ops)):
            if not match(o, s, env, base_addr):
                return i, "operand %d decodes as %r, expected %r (word %06o at %06o)" % (j + 1, o, s, words[pos], base_addr + 2 * pos)
        pos = nxt
    if pos != len(words):
        return len(specs), "decoder consumed %d words, %d were emitted" % (pos, len(words))
    return None, None


def run_one(mn, base, text, spec, r):
    out = driver.assemble([("i.mac", program(base, [text]))])
    key = (base, text)
    case = {"k": "stmt", "mn": mn, "base": base, "text": text, "spec": spec}
    if out.status != "ok" or out.base != (0o1000 if base is None else base):
        r.ran(out.cls(), key=key)
        sig = "crash:%s@%s" % (out.exc, out.site) if out.status == "crash" else ("rejected" if out.status == "fail" else out.status)
        r.violation("%s:%s" % (sig, spec[0]), "legal instruction form not assembled: %s" % text, case, "ok", out.brief())
        return False
    bad, why = decode_check(out.code, out.base, [spec])
    r.ran("ok" if bad is None else "misencoded", key=key)
    if bad is not None:
        r.violation("misencoded:%s:%s" % (spec[0], mn), "%s: %s" % (text.replace("\n", " / "), why), case,
                    {"class": spec[0], "opcode": "%06o" % spec[1], "operands": spec[2]}, {"words": ["%06o" % w for w in isa.to_words(out.code)] if len(out.code) % 2 == 0 else out.code.hex()})
        return False
    return True


def check(case, r, tier):
    k = case["k"]
    if k == "keyset":
        from pdpy11.insns import instructions
        impl = set(n.lower() for n in instructions)
        refn = set(isa.T)
        r.ran("ok", key="keyset")
        r.ran("ok", key="keyset-size")
        for n in sorted(impl ^ refn):
            r.violation("mnemonic-set", "mnemonic %r is %s" % (n, "not in the reference table" if n in impl else "not accepted by the assembler"),
                        case, None, n)
        return
    if k == "stmt":
        run_one(case["mn"], case["base"], case["text"], case["spec"], r)
        return
    if k == "implicit-index":
        # '@(rN)' is index deferred with an index word of 0 (not register deferred, which is '(rN)' / '@rN'); '(rN)' next to it
        for base in BASES:
            for reg in range(7):
                for rn in ("r%d" % reg, "%%%d" % reg) + (("sp",) if reg == 6 else ()):
                    d7 = ["gen", 7, reg, "val", 0]
                    run_one("clr", base, "clr @(%s)" % rn, ["D", 0o5000, [d7]], r)
                    run_one("mov", base, "mov @(%s), r0" % rn, ["SD", 0o10000, [d7, ["gen", 0, 0, None, None]]], r)
                    run_one("mov", base, "mov r0, @(%s)" % rn, ["SD", 0o10000, [["gen", 0, 0, None, None], d7]], r)
                    run_one("cmp", base, "cmp @(%s), @(r2)" % rn, ["SD", 0o20000, [d7, ["gen", 7, 2, "val", 0]]], r)
                    run_one("add", base, "add @(%s), fw" % rn, ["SD", 0o60000, [d7, ["gen", 6, 7, "rel", "fw"]]], r)
                    run_one("add", base, "add bk, @(%s)" % rn, ["SD", 0o60000, [["gen", 6, 7, "rel", "bk"], d7]], r)
                    run_one("jsr", base, "jsr pc, @(%s)" % rn, ["RD", 0o4000, [["reg", 7], d7]], r)
                    run_one("ldf", base, "ldf @(%s), ac1" % rn, ["FSA", 0o172400, [d7, ["ac", 1]]], r)
                    run_one("mov", base, "mov (%s), @(%s)" % (rn, rn), ["SD", 0o10000, [["gen", 1, reg, None, None], d7]], r)
                    run_one("mov", base, "mov @%s, @(%s)" % (rn, rn), ["SD", 0o10000, [["gen", 1, reg, None, None], d7]], r)
        return
    if k == "in-repeat":
        # one statement token compiled three times at successive addresses: PC-relative operands and branches must be
        # encoded for each copy's own address
        forms = [("clr", "D", 0o5000, "clr bk", [["gen", 6, 7, "rel", "bk"]]), ("tst", "D", 0o5700, "tst @bk", [["gen", 7, 7, "rel", "bk"]]),
                 ("mov", "SD", 0o10000, "mov bk, fw", [["gen", 6, 7, "rel", "bk"], ["gen", 6, 7, "rel", "fw"]]),
                 ("mov", "SD", 0o10000, "mov #1, bk", [["gen", 2, 7, "val", 1], ["gen", 6, 7, "rel", "bk"]]),
                 ("jsr", "RD", 0o4000, "jsr r5, bk", [["reg", 5], ["gen", 6, 7, "rel", "bk"]]),
                 ("ldf", "FSA", 0o172400, "ldf fw, ac1", [["gen", 6, 7, "rel", "fw"], ["ac", 1]]),
                 ("mov", "SD", 0o10000, "mov #bk, r0", [["gen", 2, 7, "val", "bk"], ["gen", 0, 0, None, None]]),
                 ("inc", "D", 0o5200, "inc 1000", [["gen", 6, 7, "rel", 0o1000]])]
        for base in BASES:
            for mn, cls, opb, text, ops in forms:
                prog = program(base, [".repeat 3 { %s }" % text])
                out = driver.assemble([("i.mac", prog)])
                good = out.status == "ok"
                why = None
                if good:
                    bad, why = decode_check(out.code, out.base, [[cls, opb, ops]] * 3)
                    good = bad is None
                r.ran("ok" if good else "misencoded", key=("in-repeat", base, text))
                if not good:
                    r.violation("misencoded:in-repeat:%s" % mn, "%s inside .repeat 3: %s" % (text, why or out.cls()),
                                {"k": "stmt", "mn": mn, "base": base, "text": ".repeat 3 { %s }" % text, "spec": None}, None, out.brief())
            for mn in ("br", "bne", "sob r2,"):
                prog = program(base, [".repeat 3 { %s bk }" % mn])
                out = driver.assemble([("i.mac", prog)])
                good = out.status == "ok"
                if good:
                    ws = isa.to_words(out.code)
                    for i, wd in enumerate(ws[:3]):
                        c, b, dec, nxt = isa.decode([wd], 0)
                        disp = dec[-1]["disp"]
                        if (out.base + 2 * i) + 2 + 2 * disp != out.base:
                            good = False
                r.ran("ok" if good else "misencoded", key=("in-repeat-br", base, mn))
                if not good:
                    r.violation("misencoded:in-repeat:branch", "%s bk inside .repeat 3 does not reach bk from every copy" % mn, {"k": "negnum"}, None, out.brief())
        return
    if k == "lookalike":
        # an ordinary symbol whose name begins like a register or an accumulator is a symbol: defined before or after its use, as
        # a constant, in every operand position of every operand-stub class
        name = LOOKALIKES[case["i"]]
        val = 0o4000 + 2 * case["i"]
        for where in ("before", "after"):
            for base in (None, 0o157776):
                sts, specs = [], []
                for mn, cls, opb, text, build in LOOK_FORMS:
                    if cls is None:
                        cls, opb, exp = isa.T[mn]
                        ops = ([["gen", 6, 7, "rel", val], ["gen", 4, 6, None, None]] if mn == "push" else [["reg", 7], ["gen", 6, 7, "rel", val]])
                    else:
                        ops = build(val)
                    sts.append(text.replace("S", name))
                    specs.append([cls, opb, ops])
                d = "%s = %o\n" % (name, val)
                prog = (".link %o\n" % base if base is not None else "") + (d if where == "before" else "") + "".join(t + "\n" for t in sts) + (d if where == "after" else "")
                out = driver.assemble([("i.mac", prog)])
                r.extra["assembler_runs"] += 1
                good = out.status == "ok"
                if good:
                    bad, why = decode_check(out.code, out.base, specs)
                    good = bad is None
                if good:
                    for t in sts:
                        r.ran("ok", key=("lookalike", where, base, t))
                    continue
                for t, sp in zip(sts, specs):
                    one = (".link %o\n" % base if base is not None else "") + (d if where == "before" else "") + t + "\n" + (d if where == "after" else "")
                    o1 = driver.assemble([("i.mac", one)])
                    g1 = o1.status == "ok"
                    why = o1.cls()
                    if g1:
                        bad, why = decode_check(o1.code, o1.base, [sp])
                        g1 = bad is None
                    r.ran("ok" if g1 else "misencoded", key=("lookalike", where, base, t))
                    if not g1:
                        r.violation("misencoded:symbol-named-like-register:%s" % sp[0], "%s with %s = %o defined %s: %s" % (t, name, val, where, why),
                                    {"k": "prog", "text": one, "specs": [sp]}, None, o1.brief())
        return
    if k == "prog":
        out = driver.assemble([("i.mac", case["text"])])
        good = out.status == "ok"
        why = out.cls()
        if good:
            bad, why = decode_check(out.code, out.base, case["specs"])
            good = bad is None
        r.ran("ok" if good else "misencoded", key=None)
        if not good:
            r.violation("misencoded:replay", str(why), case, None, out.brief())
        return
    if k == "operand-expr":
        # operand values written as unbracketed compound expressions 'a op1 b op2 c' (also with a prefix operator), in every place an
        # operand value can stand; the value is the reference reading of the flat expression (precedence climbing)
        env = {"fs": 0o1234, "n3": 3, "two": 2}
        leaves_t = ["fs", "2", "n3"]
        leaves = [("lit", 0o1234), ("lit", 2), ("lit", 3)]
        places = [("clr %s(r1)", "D", 0o5000, lambda v: [["gen", 6, 1, "val", v]]), ("clr @%s(r4)", "D", 0o5000, lambda v: [["gen", 7, 4, "val", v]]),
                  ("mov %s(r2), r0", "SD", 0o10000, lambda v: [["gen", 6, 2, "val", v], ["gen", 0, 0, None, None]]),
                  ("mov r0, %s(r3)", "SD", 0o10000, lambda v: [["gen", 0, 0, None, None], ["gen", 6, 3, "val", v]]),
                  ("mov #%s, r0", "SD", 0o10000, lambda v: [["gen", 2, 7, "val", v], ["gen", 0, 0, None, None]]),
                  ("clr @#%s", "D", 0o5000, lambda v: [["gen", 3, 7, "val", v]]), ("clr %s", "D", 0o5000, lambda v: [["gen", 6, 7, "rel", v]]),
                  ("clr @%s", "D", 0o5000, lambda v: [["gen", 7, 7, "rel", v]]), ("ldf %s(r5), ac1", "FSA", 0o172400, lambda v: [["gen", 6, 5, "val", v], ["ac", 1]])]
        for op2 in expr.INFIX:
            for pre in ("", "-", "~"):
                text_e = pre + ("%s %s %s %s %s" % (leaves_t[0], case["op1"], leaves_t[1], op2, leaves_t[2]))
                lv = list(leaves)
                if pre:
                    lv[0] = ("un", pre, lv[0])
                try:
                    val = expr.evaluate(expr.climb([case["op1"], op2], lv))
                except (expr.RefError, expr.TooBig):
                    continue
                if not -0o100000 <= val <= 0o177777:
                    continue
                sts, specs = [], []
                for tmpl, cls, opb, build in places:
                    sts.append(tmpl % text_e)
                    specs.append([cls, opb, build(val & 0xFFFF)])
                for where in ("before", "after"):
                    d = "fs = 1234\nn3 = 3\n"
                    prog = (d if where == "before" else "") + "".join(t + "\n" for t in sts) + (d if where == "after" else "")
                    out = driver.assemble([("i.mac", prog)])
                    r.extra["assembler_runs"] += 1
                    good = out.status == "ok"
                    if good:
                        bad, why = decode_check(out.code, out.base, specs)
                        good = bad is None
                    if good:
                        for t in sts:
                            r.ran("ok", key=("operand-expr", where, t))
                        continue
                    for t, sp in zip(sts, specs):
                        one = (d if where == "before" else "") + t + "\n" + (d if where == "after" else "")
                        o1 = driver.assemble([("i.mac", one)])
                        g1 = o1.status == "ok"
                        why = o1.cls()
                        if g1:
                            bad, why = decode_check(o1.code, o1.base, [sp])
                            g1 = bad is None
                        r.ran("ok" if g1 else "misencoded", key=("operand-expr", where, t))
                        if not g1:
                            r.violation("misencoded:compound-operand-value:%s" % t.split("%")[0].split(" ")[0], "%s (symbols defined %s): %s; the value is %o" % (t, where, why, val & 0xFFFF),
                                        {"k": "prog", "text": one, "specs": [sp]}, None, o1.brief())
        return
    if k == "negnum":
        for mn in ("emt", "trap", "sys"):
            cls, base, _ = isa.T[mn]
            for v in range(-255, 0):
                text = "%s -%o" % (mn, -v)
                out = driver.assemble([("i.mac", program(None, [text]))])
                good = out.status == "fail" or (out.status == "ok" and decode_check(out.code, out.base, [[cls, base, [["num", v % 256]]]])[0] is None)
                r.ran(out.cls(), key=text)
                if not good:
                    r.violation("negnum", text, {"k": "negnum"}, "field = v mod 256 or an error", out.brief())
        return
    mn, base = case["mn"], case["base"]
    if k == "singles":
        for text, spec in statements(mn, tier, singles=True):
            run_one(mn, base, text, spec, r)
        return
    st = statements(mn, tier)[case["part"]:case["part"] + B]
    out = driver.assemble([("b.mac", program(base, [t for t, _s in st]))])
    r.extra["assembler_runs"] += 1
    good = out.status == "ok" and out.base == (0o1000 if base is None else base)
    if good:
        bad, _why = decode_check(out.code, out.base, [s for _t, s in st])
        good = bad is None
    if good:
        for t, _s in st:
            r.ran("ok", key=(base, t))
        return
    # slow path: every statement of this program alone
    for t, s in st:
        run_one(mn, base, t, s, r)
