"""C19 The listing agrees with the image — E2 over programs x output selectors (in-process CLI runs)."""
import re
import shutil
import itertools
from .. import driver

ID = "C19"
LEVEL = "model_checking"
EXHAUSTIVE = True
CHUNK = 1
CASE_TIMEOUT = 600
RULE = ("all programs built from every subset of 10 symbol features (labels at distinct and at equal addresses, constants 0/5/-5/177777/"
        "200000/-200000/2^32, equal values under different names, mixed-case names, names with dots/dollars/underscores, local labels, a forward definition chain, an unused "
        "symbol, a same-named private symbol in another file, an exported label used across files) in 1-3 linked files plus an included "
        "file, each assembled through the command line with --lst under every output selector (-o x.bin, -o x.raw, -o x, -o d/x.bin, names whose stem ends in letters of the format name, "
        "--implicit-bin, make_bin, make_raw 'p/q.raw', make_wav, -o together with make_bin, none). The listing is parsed: one section per "
        "source file that has ordinary symbols, exactly that file's ordinary symbols once each, octal values equal to the reference "
        "(negative: signed or 16-bit two's complement), ordered by value then name, label values = base + offset of the following byte, "
        "file written beside the first output with a .lst suffix. state = (feature set, file layout, selector); non-trivial = distinct state")
ASSUMPTIONS = ["label offsets follow from the fixed-size statements of the generator", "a source file without ordinary symbols needs no section",
               "listing path: <output>.lst or <output without extension>.lst are both accepted; with -o and make_* together either output may be 'first'",
               "among equal values, plain and case-folded name order are both accepted"]
FEATURES = ["labels", "equal-labels", "consts", "equal-values", "mixed-case", "locals", "chain", "unused", "big", "odd-names"]
SELECTORS = [
    (["-o", "x.bin"], None, ["x.lst", "x.bin.lst"]),
    (["-o", "x.raw"], None, ["x.lst", "x.raw.lst"]),
    (["-o", "x"], None, ["x.lst"]),
    (["-o", "d/x.bin"], None, ["d/x.lst", "d/x.bin.lst"]),
    (["--implicit-bin"], None, ["m.lst", "m.bin.lst"]),
    ([], "make_bin\n", ["m.lst", "m.bin.lst"]),
    ([], "make_raw \"p/q.raw\"\n", ["p/q.lst", "p/q.raw.lst"]),
    ([], "make_wav\n", ["m.lst", "m.wav.lst"]),
    (["-o", "o.bin"], "make_raw \"r.raw\"\n", ["o.lst", "o.bin.lst", "r.lst", "r.raw.lst"]),
    ([], None, []),
    # output names whose stem ends in letters of the format name
    (["-o", "main.bin"], None, ["main.lst", "main.bin.lst"]),
    (["-o", "data.raw"], None, ["data.lst", "data.raw.lst"]),
    (["-o", "alpha"], None, ["alpha.lst"]),
    (["-o", "b.bin"], None, ["b.lst", "b.bin.lst"]),
    (["-o", "win.bin.bin"], None, ["win.bin.lst", "win.bin.bin.lst"]),
    ([], "make_bin \"plugin.bin\"\n", ["plugin.lst", "plugin.bin.lst"]),
    # several directives: the listing goes beside the *first* output
    ([], "make_bin \"first.bin\"\nmake_raw \"second.raw\"\n", ["first.lst", "first.bin.lst"]),
    ([], "make_raw \"alpha2\"\nmake_bin \"beta.bin\"\nmake_wav \"gamma.wav\"\n", ["alpha2.lst"]),
]
BASE = 0o2000


def bound(tier):
    return "all 512 feature subsets x 4 file layouts x 10 selectors" if tier == "thorough" else "all 512 feature subsets (layout and selector rotating so that every feature pair meets every layout and selector) + all layouts x selectors for 8 fixed subsets"


def build(feats, layout):
    """returns (tree, argv files, reference {file name: {symbol: value}}, image length)"""
    f = set(feats)
    lines = ["\t.link %o" % BASE]
    syms = {}
    addr = BASE

    def label(name):
        lines.append("%s:" % name)
        syms[name] = addr
    label("start")
    lines.append("\tnop")
    addr += 2
    if "labels" in f:
        label("la")
        lines.append("\tmov #1, r0")
        addr += 4
        label("lb")
        lines.append("\t.byte 1, 2")
        addr += 2
    if "equal-labels" in f:
        label("ea")
        label("eb")
        lines.append("ec:\tnop")
        syms["ec"] = addr
        addr += 2
    if "consts" in f:
        for n, v in (("k0", 0), ("k5", 5), ("km5", -5), ("kw", 0o177777), ("kx", 0o200000), ("kmx", -0o200000)):
            lines.append("%s = %s" % (n, ("-%o" % -v) if v < 0 else "%o" % v))
            syms[n] = v
    if "big" in f:
        lines.append("kbig = 40000000000")
        syms["kbig"] = 2 ** 32
        lines.append("kexpr = <1 << 20.> + 1")
        syms["kexpr"] = (1 << 20) + 1
    if "equal-values" in f:
        for n in ("zz", "aa", "mm"):
            lines.append("%s = 7" % n)
            syms[n] = 7
        lines.append("atstart = start")
        syms["atstart"] = BASE
    if "mixed-case" in f:
        for n in ("MixEd", "lower", "UPPER", "Zed", "alpha"):
            lines.append("%s = 3" % n)
            syms[n] = 3
    if "odd-names" in f:
        # names with dots, dollars, underscores and digits; two that differ only after a dot
        for i, n in enumerate(("io.csr", "io.buf", "l.1", "l.2", "a$b", "x_y.z$", "n0.0", "q..r")):
            lines.append("%s = %o" % (n, 0o40 + i))
            syms[n] = 0o40 + i
        label("lab.el")
        lines.append("\tnop")
        addr += 2
    if "locals" in f:
        lines.append("1$:\tnop")
        lines.append("2:\tbr 2")
        lines.append("\tbr 1$")
        addr += 6
    if "chain" in f:
        lines.append("f1 = f2 + 1")
        lines.append("f2 = f3 + 1")
        lines.append("f3 = fl + 10")
        label("fl")
        lines.append("\tnop")
        fl = addr
        addr += 2
        syms.update({"f3": fl + 8, "f2": fl + 9, "f1": fl + 10})
    if "unused" in f:
        lines.append("unused = 77")
        syms["unused"] = 0o77
    label("end")
    ref = {"m.mac": dict(syms)}
    tree = {}
    files = ["m.mac"]
    main = "\n".join(lines) + "\n"
    if layout in ("two", "three"):
        # a second file with a same-named private symbol and its own label, and an exported label used across files
        main += "\tmov #g2, r1\nsame = 3\n"
        ref["m.mac"]["same"] = 3
        addr += 4
        # ('same' has the same name and the same value in both files: each file's section still lists its own)
        s2 = {"start": addr, "k5": 0o55, "g2": addr + 2, "same": 3}
        tree["n.mac"] = "start:\tnop\nk5 = 55\ng2::\tnop\nsame = 3\n"
        addr += 4
        ref["n.mac"] = s2
        files.append("n.mac")
    if layout == "three":
        tree["q.mac"] = "\tnop\n1$:\tbr 1$\n"      # no ordinary symbol at all: needs no section
        addr += 4
        files.append("q.mac")
    if layout == "include":
        main += "\t.include \"i/inc.mac\"\n"
        tree["i/inc.mac"] = "start:\tnop\nil:\t.word il\nic = 12\nlate = 1\n"
        ref["i/inc.mac"] = {"start": addr, "il": addr + 2, "ic": 0o12, "late": 1}
        addr += 4
        # the including file goes on defining symbols after the include
        main += "after:\tnop\nlate = 1\n"
        ref["m.mac"]["after"] = addr
        ref["m.mac"]["late"] = 1
        addr += 2
    tree["m.mac"] = main
    return tree, files, ref, addr - BASE


def cases(tier):
    subsets = []
    for n in range(len(FEATURES) + 1):
        subsets += list(itertools.combinations(FEATURES, n))
    layouts = ["one", "two", "three", "include"]
    if tier == "thorough":
        for s in subsets:
            yield {"k": "progs", "feats": list(s), "layouts": layouts, "sels": list(range(len(SELECTORS)))}
    else:
        for i, s in enumerate(subsets):
            yield {"k": "progs", "feats": list(s), "layouts": [layouts[i % 4], layouts[(i // 4 + 1) % 4]], "sels": [i % len(SELECTORS), (i // 3 + 3) % len(SELECTORS)]}
        for s in ([], FEATURES, ["consts"], ["labels", "equal-labels"], ["mixed-case", "equal-values"], ["chain", "locals"], ["big", "consts", "unused"], ["labels", "chain", "consts"]):
            yield {"k": "progs", "feats": list(s), "layouts": layouts, "sels": list(range(len(SELECTORS)))}


LINE = re.compile(r"^(\S+) (\S+)$")


def parse_listing(text):
    """-> list of (file name, [(value text, name)]) ; raises ValueError on malformed structure"""
    secs = []
    cur = None
    for ln in text.split("\n"):
        if cur is None:
            if ln == "":
                continue
            cur = (ln, [])
            secs.append(cur)
            continue
        if ln == "":
            cur = None
            continue
        m = LINE.match(ln)
        if not m:
            raise ValueError("malformed listing line %r" % ln)
        cur[1].append((m.group(1), m.group(2)))
    return secs


def value_ok(txt, v):
    if re.fullmatch(r"[0-7]+", txt):
        got = int(txt, 8)
        return got == v or (v < 0 and -0x8000 <= v and got == (v & 0xFFFF))
    if re.fullmatch(r"-[0-7]+", txt):
        return -int(txt[1:], 8) == v
    return False


def judge(root, out, files, ref, sel, probs):
    argv, _directive, lst_candidates = sel
    created = set(out.created())
    lsts = sorted(p for p in created if p.endswith(".lst"))
    if not lst_candidates:
        if lsts:
            probs.append(("listing-without-output", "a listing %s was written although there is no output file" % lsts))
        return
    if len(lsts) != 1 or lsts[0] not in lst_candidates:
        probs.append(("listing-path", "listing written as %s, expected one of %s" % (lsts, lst_candidates)))
        if not lsts:
            return
    text = driver.read_file(root, lsts[0]).decode("utf-8", "replace")
    try:
        secs = parse_listing(text)
    except ValueError as ex:
        probs.append(("listing-malformed", str(ex)))
        return
    import os
    by_file = {}
    for name, rows in secs:
        rel = os.path.relpath(name, root) if os.path.isabs(name) else name
        if rel in by_file:
            probs.append(("duplicate-section", "two sections for %s" % rel))
        by_file[rel] = rows
    for fname, want in ref.items():
        rows = by_file.get(fname)
        if rows is None:
            probs.append(("section-missing", "no section for %s, which defines %s" % (fname, sorted(want))))
            continue
        names = [n for _v, n in rows]
        low = [n.lower() for n in names]
        wl = {k.lower(): v for k, v in want.items()}
        for n in sorted(set(low)):
            if low.count(n) > 1:
                probs.append(("symbol-twice", "%s listed %d times in %s" % (n, low.count(n), fname)))
        missing = sorted(set(wl) - set(low))
        extra = sorted(set(low) - set(wl))
        if missing:
            probs.append(("symbol-missing", "%s: not listed: %s" % (fname, missing)))
        if extra:
            probs.append(("symbol-foreign:" + ("local" if any(re.match(r"\d", e) for e in extra) else "other"), "%s: listed but not an ordinary symbol of that file: %s" % (fname, extra)))
        vals = []
        for txt, n in rows:
            if n.lower() in wl:
                v = wl[n.lower()]
                if not value_ok(txt, v):
                    probs.append(("value:" + ("negative" if v < 0 else ("label" if n.lower() in ("start", "la", "lb", "ea", "eb", "ec", "fl", "end", "il", "g2") else "constant")),
                                  "%s: %s listed as %r, its value is %o" % (fname, n, txt, v) if v >= 0 else "%s: %s listed as %r, its value is -%o" % (fname, n, txt, -v)))
                vals.append((v, n))
        for (v1, n1), (v2, n2) in zip(vals, vals[1:]):
            if v1 > v2:
                probs.append(("order-by-value", "%s: %s (%d) listed before %s (%d)" % (fname, n1, v1, n2, v2)))
                break
            if v1 == v2 and not (n1 <= n2 or n1.lower() <= n2.lower()):
                probs.append(("order-by-name", "%s: equal values, %s listed before %s" % (fname, n1, n2)))
                break
    for fname in by_file:
        if fname not in ref:
            probs.append(("section-foreign", "section for %s, which has no ordinary symbols (rows %s)" % (fname, by_file[fname][:3])))


def check(case, r, tier):
    if case["k"] == "one":
        run_one(r, case["feats"], case["layout"], case["sel"])
        return
    for layout in case["layouts"]:
        for si in case["sels"]:
            run_one(r, case["feats"], layout, si)


def run_one(r, feats, layout, si):
    sel = SELECTORS[si]
    tree, files, ref, size = build(feats, layout)
    argv, directive, _c = sel
    if directive:
        tree = dict(tree)
        tree["m.mac"] += directive
    tree["d/keep"] = ""
    tree["p/keep"] = ""
    out = driver.cli(files + argv + ["--lst"], tree, keep=True)
    r.states += 1
    r.trans += 1
    case = {"k": "one", "feats": list(feats), "layout": layout, "sel": si}
    probs = []
    try:
        if out.exit != 0:
            probs.append(("cli-failed", "exit %r: %s" % (out.exit, out.stderr[-400:])))
        else:
            judge(out.root, out, files, ref, sel, probs)
    finally:
        shutil.rmtree(out.root, ignore_errors=True)
    r.ran("ok" if not probs else "bad", key=(tuple(feats), layout, si))
    seen = set()
    for sig, what in probs:
        if sig not in seen:
            seen.add(sig)
            r.violation(sig, what, case, None, None)
