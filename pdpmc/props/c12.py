"""C12 The link base is what the source says, or an error — E2, reference arithmetic."""
import itertools
from .. import driver

ID = "C12"
LEVEL = "model_checking"
EXHAUSTIVE = True
CHUNK = 1
CASE_TIMEOUT = 600
RULE = ("all link expressions K + k1*(Li-Lj) [+ k2*(Lm-Ln)] over three labels with coefficients in {-2,-1,1,2}, each coefficient spelled as "
        "product (both operand orders), shift (<< and _), sum, halved doubled difference (/2, >>1), negation; written directly, through a "
        "symbol defined before the labels and through one defined at the end; the directive ('.link' or a leading '. =') at every "
        "position of the file (before, between and after the labels) and in either file of two-file links; labels separated by constant-"
        "size and by later-known-size statements. Oracle: base = value of the expression by plain integer arithmetic on label offsets, "
        "image = reference layout at that base (with a '.word a, c' read-back). Genuinely self-dependent bases, a second '.link' (same "
        "or other file) and '.link' after a leading '. =' must fail with an error. With the base set: '. = .+n' for every n in 0..64 "
        "(constant, decimal, forward-defined) zero-fills n bytes, '. = X' absolute forward, '. = .-n' n in 1..8 and lower absolute "
        "targets must fail, also between the two labels of a base expression in which the base cancels (4 expressions x 4 target spellings x directive first/last). The directive inside '.repeat' blocks (count 1, count defined at the end, nested); included files with base "
        "directives of their own under three placements of the parent's base (differential). state = program; transition = one placement/spelling step; non-trivial = distinct program text")
ASSUMPTIONS = ["label offsets of the fixed three-label layout (0, 6, 10) are known by construction", "a non-leading '. =' without an earlier base is left open by the property and not generated; base directives inside an included file are generated only under a differential oracle (the placement of the parent's base must not matter), their meaning is not demanded"]
K = 0o2000
# how the six bytes between the labels a and b come about: a constant-size statement, a size known later, '.repeat' blocks with a
# literal and with a later-defined count, an included file, and an included file (the very first statement unless the directive
# precedes it) that also holds the label a itself, exported
SIZEFORMS = [False, True, "rep", "repfwd", "repbyte", "inc", "inclabel", "skiprel", "skiplab"]
TREE = {"six.mac": "\t.blkb 6\n", "inca.mac": "a:: .blkb 6\n"}
OFF = {"a": 0, "b": 6, "c": 10}
PAIRS = [(x, y) for x in "abc" for y in "abc" if x != y]


def bound(tier):
    return "complete for the listed expression/spelling/placement product (%d link expressions); skips n in 0..64" % len(expressions(tier))


def term(x, y, k, sp):
    """text of k*(x-y) in spelling sp (always a bracketed group), or None if the spelling does not apply"""
    d = "<%s-%s>" % (x, y)
    if k == 1:
        t = {"plain": "%s-%s" % (x, y), "grp": d, "half": "<2*%s >/2" % d, "shr": "< %s<<1 > >> 1" % d, "half2": "< %s+%s >/2" % (d, d)}.get(sp)
    elif k == 2:
        t = {"plain": "2*%s" % d, "grp": "%s*2" % d, "half": "%s<<1" % d, "shr": "%s _ 1" % d, "half2": "%s+%s" % (d, d)}.get(sp)
    else:
        return None
    return "< %s >" % t


SPELL = ["plain", "grp", "half", "shr", "half2"]


def expressions(tier="quick"):
    """yield (text, value) of link expressions whose base dependence cancels"""
    out = []
    for (x, y) in PAIRS:
        for k in (1, 2):
            for sp in SPELL:
                t = term(x, y, k, sp)
                v = k * (OFF[x] - OFF[y])
                out.append(("%o+%s" % (K, t), K + v))
                out.append(("%o-%s" % (K, t), K - v))
                out.append(("%s+%o" % (t, K), K + v))
    for (p1, p2) in itertools.product(PAIRS, repeat=2):
        t1, t2 = term(p1[0], p1[1], 1, "plain"), term(p2[0], p2[1], 1, "grp")
        v = (OFF[p1[0]] - OFF[p1[1]]) + (OFF[p2[0]] - OFF[p2[1]])
        out.append(("%s+%o+%s" % (t1, K, t2), K + v))
    # aliases of labels, defined before the labels exist (see make_program: 'qa = a' ... are emitted on top when used)
    for k in (1, 2, -1, -2):
        for (x, y) in (("c", "a"), ("b", "a"), ("c", "b")):
            v = k * (OFF[x] - OFF[y])
            kk = ("%d*" % k) if k > 0 else ("0-%d*" % -k)
            out.append(("%o+%s<q%s-q%s>" % (K, kk, x, y), K + v))
            out.append(("%o+%s<q%s-%s>" % (K, kk, x, y), K + v))
            out.append(("%o+%s<%s-q%s>" % (K, kk, x, y), K + v))
    # a factor that is a symbol defined at the very end (through another symbol): each product waits for the number only
    for (x, y) in (("c", "a"), ("b", "a"), ("c", "b")):
        v = 2 * (OFF[x] - OFF[y])
        out.append(("%o+kf*%s-kf*%s" % (K, x, y), K + v))
        out.append(("%o+%s*kf-%s*kf" % (K, x, y), K + v))
        out.append(("%o+kf*<%s-%s>" % (K, x, y), K + v))
        out.append(("%o-kf*%s+%s*kf" % (K, x, y), K - v))
    if tier == "thorough":
        # coefficients 3 and -3, three difference terms, differences of differences
        for (x, y) in PAIRS:
            d = OFF[x] - OFF[y]
            out.append(("%o+3*<%s-%s>" % (K, x, y), K + 3 * d))
            out.append(("%o-<%s-%s>*3" % (K, x, y), K - 3 * d))
            out.append(("%o+%s+%s+%s-%s-%s-%s" % (K, x, x, x, y, y, y), K + 3 * d))
        for (p1, p2, p3) in itertools.product(PAIRS, repeat=3):
            v = sum(OFF[a] - OFF[b] for a, b in (p1, p2, p3))
            out.append(("%o+<%s-%s>+<%s-%s>-<%s-%s>" % (K, p1[0], p1[1], p2[0], p2[1], p3[1], p3[0]), K + v))
        for (p1, p2) in itertools.product(PAIRS, repeat=2):
            v = (OFF[p1[0]] - OFF[p1[1]]) - (OFF[p2[0]] - OFF[p2[1]])
            out.append(("%o+<<%s-%s>-<%s-%s> >" % (K, p1[0], p1[1], p2[0], p2[1]), K + v))
    # the classic: K + end - start in several orders, unbracketed
    out += [("c-a+%o" % K, K + 10), ("%o+c-a" % K, K + 10), ("c+%o-a" % K, K + 10), ("0-a+c+%o" % K, K + 10), ("%o+a-b" % K, K - 6), ("%o-a+b" % K, K + 6)]
    seen, res = set(), []
    for t, v in out:
        if t not in seen:
            seen.add(t)
            res.append((t, v))
    return res


BAD = ["c", "a", "b+2", "2*c-a", ".", ".+2", "c-a+b", "b*2-a*2+a", "%o+c" % K, "a+a", "0-a", "<c+a>/2", "c_1", "<a+b>-c+c"]


def layout(base, deferred):
    body = "a%s .blkb %s\nb%s .word 1, 2\nc%s nop\n.word a, c\n"
    return body, b"\x00" * 6 + b"\x01\x00\x02\x00" + b"\xa0\x00" + bytes([base & 255, (base >> 8) & 255, (base + 10) & 255, ((base + 10) >> 8) & 255])


def make_program(directive, pos, deferred, symform, expr, colon=":", wrap=None):
    """directive: '.link' or '. ='; pos 0..3 (before a, between a/b, between b/c, after everything)"""
    lines = []
    e = expr
    pre_defs, post_defs = [], []
    if symform == "before":
        pre_defs.append("lk = " + expr)
        e = "lk"
    elif symform == "after":
        post_defs.append("lk = " + expr)
        e = "lk"
    d = "%s %s" % (directive, e) if directive == ".link" else ". = %s" % e
    if wrap == "repeat1":
        d = ".repeat 1 { %s }" % d
    elif wrap == "repeat-fwd":
        # the block is assembled only when its count is known, i.e. after everything else has been visited
        d = ".repeat rc1 { %s }" % d
        post_defs.append("rc1 = 1")
    elif wrap == "repeat-nested":
        d = ".repeat rc1 { .repeat 1 { %s } }" % d
        post_defs.append("rc1 = 1")
    first = {False: "a%s .blkb 6", True: "a%s .blkb n6", "rep": "a%s .repeat 3 { .word 0 }", "repfwd": "a%s .repeat n3 { .word 0 }",
             "repbyte": "a%s .repeat n6 { .byte 0 }", "inc": "a%s .include \"six.mac\"", "inclabel": "%s.include \"inca.mac\"",
             # a skip relative to '.' / to the label just before it (only a skip when the directive stands first)
             "skiprel": "a%s .word 0, 0\n. = .+2", "skiplab": "a%s .word 0\n. = a+6"}[deferred]
    stm = [first % (colon if deferred != "inclabel" else ""), "b%s .word 1, 2" % colon, "c%s nop" % colon, ".word a, c"]
    if "kf" in expr:
        post_defs += ["kf = nf", "nf = 2"]
    if deferred is True or deferred == "repbyte":
        post_defs.append("n6 = 6")
    if deferred == "repfwd":
        post_defs.append("n3 = 3")
    out = list(pre_defs)
    for al in ("qa", "qb", "qc"):
        if al in expr:
            out.insert(0, "%s = %s" % (al, al[1]))
    for i, s in enumerate(stm[:3]):
        if pos == i:
            out.append(d)
        out.append(s)
    out.append(stm[3])
    if pos == 3:
        out.append(d)
    out += post_defs
    return "\n".join(out) + "\n"


def cases(tier):
    ex = expressions(tier)
    for i in range(0, len(ex), 12):
        yield {"k": "exprs", "lo": i, "hi": i + 12}
    yield {"k": "bad"}
    yield {"k": "blocks"}
    yield {"k": "include-own-base"}
    yield {"k": "second"}
    yield {"k": "twofiles"}
    yield {"k": "skips"}
    yield {"k": "defaults"}


def judge_ok(r, text, files, want_base, want_image, key, fam):
    out = driver.assemble(files, tree=TREE)
    r.states += 1
    r.trans += 1
    good = out.status == "ok" and out.base == want_base and out.code == want_image
    r.ran("ok" if good else out.cls(), key=key)
    if not good:
        if out.status == "ok":
            sig = "wrong-base" if out.base != want_base else "wrong-image"
        elif out.status == "fail":
            sig = "rejected:" + ",".join(sorted(set(out.error_kinds())))
        else:
            sig = out.cls()
        r.violation("%s:%s" % (fam, sig), "legal base-setting program: expected base %o" % want_base, {"k": "ok-prog", "files": [list(f) for f in files], "base": want_base, "image": want_image.hex()},
                    {"base": want_base, "bytes": want_image.hex()}, out.brief())


def judge_fail(r, files, key, fam, why):
    out = driver.assemble(files, tree=TREE)
    r.states += 1
    r.trans += 1
    r.ran(out.cls(), key=key)
    if out.status != "fail":
        sig = "accepted" if out.status == "ok" else out.cls()
        r.violation("%s:%s" % (fam, sig), why, {"k": "fail-prog", "files": [list(f) for f in files], "fam": fam, "why": why}, "fail", out.brief())


def check(case, r, tier):
    k = case["k"]
    if k == "ok-prog":
        judge_ok(r, None, [tuple(f) for f in case["files"]], case["base"], bytes.fromhex(case["image"]), None, "replay")
        return
    if k == "fail-prog":
        judge_fail(r, [tuple(f) for f in case["files"]], None, case["fam"], case["why"])
        return
    if k == "exprs":
        for expr, val in expressions(tier)[case["lo"]:case["hi"]]:
            base = val & 0xFFFF
            _b, image = layout(base, False)
            for directive in (".link", ". ="):
                for pos in ((0, 1, 2, 3) if directive == ".link" else (0,)):
                    for deferred in SIZEFORMS:
                        if deferred in ("skiprel", "skiplab") and pos != 0:
                            continue   # before the base is set, '. =' would set it
                        for symform in ("direct", "before", "after"):
                            text = make_program(directive, pos, deferred, symform, expr)
                            fam = "%s-pos%d-%s%s" % ("link" if directive == ".link" else "dot", pos, symform,
                                                     "" if deferred is False else "-deferredsize" if deferred is True else "-" + deferred)
                            judge_ok(r, text, [("p.mac", text)], base, image, text, fam)
        return
    if k == "blocks":
        # the directive inside a '.repeat' block (run once), also one whose count is defined at the end of the file
        ex = [("%o" % K, K), ("%o+c-a" % K, K + 10), ("%o-<c-b>" % K, K - 4), ("c-a+%o" % K, K + 10)]
        for expr, val in ex:
            base = val & 0xFFFF
            _b, image = layout(base, False)
            for wrap in ("repeat1", "repeat-fwd", "repeat-nested"):
                for directive in (".link", ". ="):
                    for pos in ((0, 1, 2, 3) if directive == ".link" else (0,)):
                        for symform in ("direct", "before", "after"):
                            for deferred in (False, True, "repfwd"):
                                text = make_program(directive, pos, deferred, symform, expr, wrap=wrap)
                                judge_ok(r, text, [("p.mac", text)], base, image, text, "%s-in-%s-pos%d-%s" % ("link" if directive == ".link" else "dot", wrap, pos, symform))
        for expr in BAD[:6]:
            for wrap in ("repeat1", "repeat-fwd"):
                for directive in (".link", ". ="):
                    text = make_program(directive, 0, False, "direct", expr, wrap=wrap)
                    judge_fail(r, [("p.mac", text)], text, "self-dependent-in-block", "the base depends on itself (%s) and must be refused" % expr)
        return
    if k == "include-own-base":
        # an included file that carries a base directive of its own: what that means is not C12's business, but where the *parent*
        # states its base (first line, last line, leading '. =') must not matter - the three placements denote the same program
        incs = [". = 3000\nx: .word .\n.word x\n", ".link 3000\nx: .word .\n.word x\n", "x: .word .\n. = 3000\n.word x\n", "x: .word .\n.link 3000\n.word x\n",
                ". = . + 4\nx: .word x\n", ". = x\nx: .word 1\n", ".link 3000+e-x\nx: .word 1, 2\ne: .word x\n", "nop\n. = .+2\nx: .word x\n", "x: .word x\n"]
        parents = ["%s.word 1\n.include \"ib.mac\"\n.word .\n%s", "%s.include \"ib.mac\"\n.word .\n%s", "%s.word 1\n.include \"ib.mac\"\n%s", "%sq: .byte 1\n.include \"ib.mac\"\n.even\n.word q, .\n%s"]
        for inc in incs:
            for par in parents:
                outs = {}
                for place, (pre, post) in (("link-first", (".link 2000\n", "")), ("dot-first", (". = 2000\n", "")), ("link-last", ("", ".link 2000\n"))):
                    text = par % (pre, post)
                    o = driver.assemble([("p.mac", text)], tree={"ib.mac": inc})
                    r.states += 1
                    r.trans += 1
                    r.ran(o.cls(), key=("include-own-base", inc, par, place))
                    outs[place] = (o, text)
                    if o.status in ("crash", "hang", "silent-fail"):
                        r.violation("include-own-base:" + o.cls(), "included file with a base directive of its own", {"k": "tree-prog", "text": text, "tree": {"ib.mac": inc}}, None, o.brief())
                ks = {p: (o.status, o.base, o.code, tuple(sorted(set(o.error_kinds())))) for p, (o, _t) in outs.items()}
                if len(set(ks.values())) > 1:
                    a, b = sorted(ks, key=lambda p: repr(ks[p]))[0], sorted(ks, key=lambda p: repr(ks[p]))[-1]
                    r.violation("include-own-base:parent-base-placement-changes-result:%s-vs-%s" % (ks[a][0], ks[b][0]),
                                "the same program with the parent's base stated as %s and as %s gives different results" % (a, b),
                                {"k": "tree-pair", "a": outs[a][1], "b": outs[b][1], "tree": {"ib.mac": inc}}, outs[a][0].brief(), outs[b][0].brief())
        return
    if k == "tree-pair":
        a = driver.assemble([("p.mac", case["a"])], tree=case["tree"])
        b = driver.assemble([("p.mac", case["b"])], tree=case["tree"])
        r.ran(a.cls(), key=None)
        if (a.status, a.base, a.code, tuple(sorted(set(a.error_kinds())))) != (b.status, b.base, b.code, tuple(sorted(set(b.error_kinds())))):
            r.violation("include-own-base:parent-base-placement-changes-result:replay", "different results", case, a.brief(), b.brief())
        return
    if k == "tree-prog":
        o = driver.assemble([("p.mac", case["text"])], tree=case["tree"])
        r.ran(o.cls(), key=None)
        if o.status in ("crash", "hang", "silent-fail"):
            r.violation("include-own-base:" + o.cls(), "replay", case, None, o.brief())
        return
    if k == "bad":
        for expr in BAD:
            for directive in (".link", ". ="):
                for pos in ((0, 1, 2, 3) if directive == ".link" else (0,)):
                    for deferred in SIZEFORMS:
                        if deferred in ("skiprel", "skiplab") and pos != 0:
                            continue
                        for symform in ("direct", "before", "after"):
                            text = make_program(directive, pos, deferred, symform, expr)
                            judge_fail(r, [("p.mac", text)], text, "self-dependent", "the base depends on itself (%s) and must be refused" % expr)
        return
    if k == "second":
        body = "a: .blkb 6\nb: .word 1, 2\nc: nop\n"
        for first, second in itertools.product((".link 2000", ". = 2000"), (".link 3000", ".link 2000", ".link c-a+2000")):
            for pos in range(4):
                lines = body.strip().split("\n")
                lines.insert(pos, second)
                text = first + "\n" + "\n".join(lines) + "\n"
                judge_fail(r, [("p.mac", text)], text, "second-link", "a second base setting must be refused")
        for f2 in (".link 3000\nnop\n", "nop\n.link 3000\n", ".link 2000\n"):
            for f1 in (".link 2000\n" + body, body + ".link 2000\n", ". = 2000\n" + body):
                judge_fail(r, [("p1.mac", f1), ("p2.mac", f2)], (f1, f2), "second-link-other-file", "a second '.link' in another linked file must be refused")
        return
    if k == "twofiles":
        # labels split over two files (exported), the directive in either file at every position
        for expr, val in [("%o+c-a" % K, K + 10), ("%o+2*<b-a>" % K, K + 12), ("%o-<c-b>" % K, K - 4), ("<c-b>/2+%o" % K, K + 2), ("%o+b-a+c-b" % K, K + 10)]:
            base = val & 0xFFFF
            _b, image = layout(base, False)
            f1 = ["a:: .blkb 6"]
            f2 = ["b:: .word 1, 2", "c:: nop", ".word a, c"]
            for which, pos in [(0, 0), (0, 1), (1, 0), (1, 1), (1, 2), (1, 3)]:
                for deferred in (False, True):
                    l1, l2 = list(f1), list(f2)
                    if deferred:
                        l1[0] = "a:: .blkb n6"
                        l1.append("n6 = 6")
                    (l1 if which == 0 else l2).insert(pos, ".link " + expr)
                    files = [("p1.mac", "\n".join(l1) + "\n"), ("p2.mac", "\n".join(l2) + "\n")]
                    judge_ok(r, None, files, base, image, (expr, which, pos, deferred), "twofiles-link%d-pos%d%s" % (which, pos, "-deferredsize" if deferred else ""))
            # leading '. =' in the first file
            files = [("p1.mac", ". = %s\n" % expr + "\n".join(f1) + "\n"), ("p2.mac", "\n".join(f2) + "\n")]
            judge_ok(r, None, files, base, image, (expr, "dot"), "twofiles-dot")
        return
    if k == "skips":
        for n in range(0, 65):
            for sp, defs in (("%o" % n, ""), ("%d." % n, ""), ("gap", "gap = %o\n" % n)):
                for pre in (".link 2000\n", ". = 2000\n"):
                    text = pre + "nop\n. = .+%s\n.byte 1\n%s" % (sp, defs)
                    judge_ok(r, None, [("p.mac", text)], K, b"\xa0\x00" + b"\x00" * n + b"\x01", text, "skip-forward")
                    # the location counter after the skip: a label and '.' behind it
                    text = pre + "nop\n. = .+%s\nlab: .byte 1\n.even\n.word lab, .\n%s" % (sp, defs)
                    img = b"\xa0\x00" + b"\x00" * n + b"\x01"
                    img += b"\x00" * (len(img) % 2)
                    lab, dot = K + 2 + n, K + len(img)
                    img += bytes([lab & 255, lab >> 8, dot & 255, dot >> 8])
                    judge_ok(r, None, [("p.mac", text)], K, img, text, "skip-forward-then-label")
            text = ".link 2000\nnop\n. = %o\n.byte 1\n" % (K + 2 + n)
            judge_ok(r, None, [("p.mac", text)], K, b"\xa0\x00" + b"\x00" * n + b"\x01", text, "skip-absolute")
            text = ".link 2000\nnop\n.blkb sz\n. = tgt\n.byte 1\nsz = 3\ntgt = %o\n" % (K + 5 + n)
            judge_ok(r, None, [("p.mac", text)], K, b"\xa0\x00" + b"\x00" * (3 + n) + b"\x01", text, "skip-absolute-after-deferred-size")
        for n in range(1, 9):
            for sp, defs in (("%o" % n, ""), ("back", "back = %o\n" % n)):
                text = ".link 2000\nnop\n.blkb 10\n. = .-%s\n.byte 1\n%s" % (sp, defs)
                judge_fail(r, [("p.mac", text)], text, "skip-backward", "a backward '. =' must be refused")
            text = ".link 2000\nnop\n.blkb 10\n. = %o\n.byte 1\n" % (K + 10 - n)
            judge_fail(r, [("p.mac", text)], text, "skip-backward", "a backward '. =' must be refused")
        # backward while the base is still being worked out *through* the skip (the base cancels between labels on both sides)
        for n in (1, 2, 3, 4, 6):
            for tgt in (".-%o" % n, "s+%o" % (6 - n), ".-bkn", "s+6-bkn"):
                for expr in ("2000+e-s", "2000+2*<e-s>", "e-s+2000", "2000-<s-e>"):
                    for place in ("first", "last"):
                        body = "s: nop\nnop\nnop\n. = %s\ne: nop\n.word s, e\n" % tgt + ("bkn = %o\n" % n if "bkn" in tgt else "")
                        text = (".link %s\n" % expr + body) if place == "first" else (body + ".link %s\n" % expr)
                        judge_fail(r, [("p.mac", text)], text, "skip-backward-through-cancelling-base", "a backward '. =' must be refused, also while the base is computed through it")
        # backward to a target below address 0 (which is not the same as forward to 2^16 minus something)
        for n in range(1, 65):
            for pre, at in ((".link 0\nnop\n", 2), (". = 0\nnop\n", 2), (".link 10\n.word 1\n", 0o12), (".link 0\n", 0)):
                for sp in ("%d." % n, "bk%d" % n):
                    text = pre + ". = .-%s\nnop\n" % sp + ("bk%d = %d.\n" % (n, n) if sp.startswith("bk") else "")
                    if n > at:
                        judge_fail(r, [("p.mac", text)], text, "skip-backward-below-zero", "a backward '. =' to a target below address 0 must be refused")
            text = ".link 10\n.word 1\n. = 6 - %o\n.word 2\n" % (6 + n)
            judge_fail(r, [("p.mac", text)], text, "skip-backward-below-zero", "a backward '. =' to a negative target must be refused")
        return
    if k == "defaults":
        judge_ok(r, None, [("p.mac", "nop\n")], 0o1000, b"\xa0\x00", "default", "default-base")
        judge_ok(r, None, [("p.mac", "a: nop\n.word a\n")], 0o1000, b"\xa0\x00\x00\x02", "default2", "default-base")
        judge_ok(r, None, [("p1.mac", "nop\n"), ("p2.mac", "b: .word b\n")], 0o1000, b"\xa0\x00\x02\x02", "default3", "default-base")
        for b in (0, 2, 0o1001, 0o157776, 0o177776):
            for d in (".link %o\n" % b, ". = %o\n" % b, ".LINK %o\n" % b, ".link %d.\n" % b, ".link 0x%x\n" % b):
                judge_ok(r, None, [("p.mac", d + "a: nop\nmov #a, r0\n")], b, b"\xa0\x00\xc0\x15" + bytes([b & 255, b >> 8]), d, "constant-base")
            judge_ok(r, None, [("p.mac", "a: nop\nmov #a, r0\n.link %o\n" % b)], b, b"\xa0\x00\xc0\x15" + bytes([b & 255, b >> 8]), ("last", b), "constant-base-last")
        return
