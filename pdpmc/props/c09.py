"""C09 Relocation law: only absolute address words move with the base — E2, differential across bases."""
import itertools
from .. import driver

ID = "C09"
LEVEL = "model_checking"
EXHAUSTIVE = True
CHUNK = 1
CASE_TIMEOUT = 600
RULE = ("all statement sequences up to the depth bound over a 25-statement alphabet (30 at depth <= 2: index mode on the program counter, 'x(pc)', '@x(r7)', '4(pc)') in which every statement is tagged with the word "
        "offsets that hold absolute addresses (immediate/absolute/index/.word of labels, of '.', and of symbols assigned label "
        "expressions before the labels exist; PC-relative operands, branches, sob, label differences directly and through symbols, "
        "an included file referring to a global of the including file, a '. = .+4' skip, a '.once'-guarded include), labels before/inside/after; each program is assembled at 5 "
        "link bases (7 incl. two that wrap through 177777 when it has no absolute word) with the base set by '.link' first, '. =' "
        "first and '.link' last; all pairs of images are compared word by word: tagged words equal base + label offset at every base, "
        "all other words are identical. state = program x base-placement; transition = appended statement; non-trivial = error-free "
        "program with distinct (placement, sequence)")
ASSUMPTIONS = ["statement sizes and absolute-word positions of the alphabet are fixed by construction (all statements have fixed size)",
               "words holding sums of two addresses and relative references to constants outside the program are not generated (the law does not cover them)"]
BASES = [0, 0o1000, 0o40000, 0o100000, 0o157776]
WRAP = [0o177770, 0o177776]
PLACE = ["link-first", "dot-first", "link-last"]

# (text, size in bytes, [(word offset within statement, label whose address it holds, addend)], needs)
S = [
    ("mov #m, r0", 4, [(1, "m", 0)], ""),
    ("jmp @#e", 4, [(1, "e", 0)], ""),
    (".word s", 2, [(0, "s", 0)], ""),
    ("clr m(r1)", 4, [(1, "m", 0)], ""),
    ("mov s, e", 6, [], ""),
    ("jsr pc, m", 4, [], ""),
    ("br e", 2, [], ""),
    ("sob r1, s", 2, [], ""),
    (".word e-s", 2, [], ""),
    (".byte <e-m>, 0", 2, [], ""),
    ("mov #.+4, r0", 4, [(1, ".", 4)], ""),
    (".word .", 2, [(0, ".", 0)], ""),
    ("nop", 2, [], ""),
    (".blkb 4", 4, [], ""),
    (".word sz", 2, [], "sz"),
    (".word m-fp", 2, [], "fp"),
    (".word pa", 2, [(0, "m", 2)], "pa"),
    (".include \"inc.mac\"", 6, [(2, "gl", 0)], "gl"),
    ("mov @#s, @e", 6, [(1, "s", 0)], ""),
    (".include \"lib.mac\"", 14, [(6, ".", 0)], "lib"),
    ("jsr pc, il", 4, [], "il"),
    ("mov il, r2", 4, [], "il"),
    ("mov #il, r2", 4, [(1, "il", 0)], "il"),
    (". = .+4", 4, [], "dot"),
    (".include \"onc.mac\"", 4, [(1, ".", 2)], "onc"),
    # index mode on the program counter: the index word is the value as written (an address moves, a number does not) although the
    # mode bits are those of a PC-relative operand.  (explored at depth <= 2 with every statement of the alphabet before and after)
    ("mov m(pc), r0", 4, [(1, "m", 0)], ""),
    ("clr @e(r7)", 4, [(1, "e", 0)], ""),
    ("mov 4(pc), r1", 4, [], ""),
    ("jmp s+2(%7)", 4, [(1, "s", 2)], ""),
    ("mov @6(pc), m(pc)", 6, [(2, "m", 0)], ""),
]
N3 = 25   # the statements explored at depth 3
DEFS = {"sz": "sz = e - s", "fp": "fp = e - 2", "pa": "pa = m + 2"}
TREE = {"inc.mac": "mov gl, r1\n.word gl\n",
        # an included file that refers to its own first label (whose address is the bare start promise of that file)
        "lib.mac": "lib:\tnop\n\tjsr pc, lib\n\tmov lib, r3\n\tbr lib\n\t.word lib\n",
        # an included file with an exported label that is not at its offset 0, referred to from the including file
        "il.mac": "\tnop\nil::\tnop\n",
        # a '.once'-guarded include: the guard is per assembly, not per process
        "onc.mac": "\t.once\n\tnop\n\t.word .\n"}


# depth 4 (thorough) is complete over this core: one statement per mechanism (absolute word, PC-relative, branch, label difference,
# '.', symbol of an address, include-internal label, label inside an include, skip, '.once' include)
CORE = [0, 3, 4, 6, 8, 10, 16, 19, 22, 23, 24]


def bound(tier):
    return "depth 3 complete over %d statements, depth 2 over %d (index mode on the program counter added)%s x 3 base placements x %s bases, all base pairs compared" % (
        N3, len(S), (", depth 4 complete over a core of %d statements" % len(CORE)) if tier == "thorough" else "", "5-7" if tier == "thorough" else "4-6")


def cases(tier):
    for d in range(1, 4):
        if d <= 2:
            yield {"k": "seq", "d": d, "first": []}
        else:
            for f in range(N3):
                yield {"k": "seq", "d": d, "first": [f]}
    if tier == "thorough":
        for f in CORE:
            for g in CORE:
                yield {"k": "seq", "d": 4, "first": [f, g], "core": True}


def build(idx, base, place):
    """returns text, tags [(byte offset of word, label, addend, stmt address offset)], label offsets"""
    needs = set(S[i][3] for i in idx if S[i][3])
    lines = []
    if place == "link-first":
        lines.append(".link %o" % base)
    elif place == "dot-first":
        lines.append(". = %o" % base)
    for n in ("sz", "fp", "pa"):
        if n in needs:
            lines.append(DEFS[n])
    off = 0
    tags = []
    labels = {"s": 0}
    lines.append("s:")
    half = (len(idx) + 1) // 2
    for j, i in enumerate(idx):
        if j == half:
            lines.append("m:")
            labels["m"] = off
        text, size, tg, _need = S[i]
        lines.append(text)
        if _need == "onc":
            if "onc" in labels:
                continue   # a '.once' file contributes only the first time
            labels["onc"] = off
        for (wo, lab, add) in tg:
            tags.append((off + 2 * wo, lab, add, off))
        off += size
    if "m" not in labels:
        lines.append("m:")
        labels["m"] = off
    lines.append("e: .word 0")
    labels["e"] = off
    off += 2
    if "gl" in needs:
        lines.append("gl:: nop")
        labels["gl"] = off
        off += 2
    if "il" in needs:
        lines.append(".include \"il.mac\"")
        labels["il"] = off + 2
        off += 4
    if place == "link-last":
        lines.append(".link %o" % base)
    return "\n".join(lines) + "\n", tags, labels, off


def check_seq(idx, r, case_extra=None):
    has_abs = any(S[i][2] or S[i][3] == "dot" for i in idx)   # (a skip computes an absolute target address)
    bases = (BASES if FULL_BASES or len(idx) < 3 else BASES[:2] + BASES[3:]) + ([] if has_abs else WRAP)
    # all bases and placements of one program are assembled under the same path names (one process assembling a project again)
    root = driver.prepare_tree(TREE) if any(S[i][3] in ("gl", "lib", "il", "onc") for i in idx) else None
    try:
        _check_seq(idx, r, bases, root)
    finally:
        if root:
            import shutil
            shutil.rmtree(root, ignore_errors=True)


def _check_seq(idx, r, bases, root):
    for place in PLACE:
        if place == "link-last" and any(S[i][3] == "dot" for i in idx):
            continue   # '. = .+4' is a skip only once the base is set
        imgs = {}
        info = None
        for b in bases:
            text, tags, labels, size = build(idx, b, place)
            out = driver.assemble([("p.mac", text)], root=root)
            r.trans += 1
            imgs[b] = (out, text)
            info = (tags, labels, size)
        r.states += 1
        tags, labels, size = info
        sts = set(o.status for o, _t in imgs.values())
        key = (place, tuple(idx))
        case = {"k": "one", "idx": list(idx), "place": place}
        if sts != {"ok"}:
            bad = [o for o, _t in imgs.values() if o.status != "ok"][0]
            for o, _t in imgs.values():
                r.ran(o.cls(), key=None, nontrivial=False)
            # a legal position-independent program that assembles at one base must assemble at every base
            if len(sts) > 1 or bad.status in ("crash", "hang", "silent-fail"):
                r.violation("base-dependent-outcome:%s" % "/".join(sorted(sts)) if len(sts) > 1 else "not-assembled:" + bad.cls(),
                            "the same source assembles at some bases but not at others" if len(sts) > 1 else "legal program not assembled",
                            case, None, {("%o" % b): o.brief() for b, (o, _t) in imgs.items()})
            else:
                r.extra["programs_rejected_at_all_bases"] += 1
            continue
        for o, _t in imgs.values():
            r.ran("ok", key=None)
        r.ran("ok", key=key, n=0)
        tagged = {t[0] for t in tags}
        probs = []
        for b, (o, _t) in imgs.items():
            if o.base != b or len(o.code) != size:
                probs.append(("base-or-size", "base %o: reported base %o, %d bytes (expected %d)" % (b, o.base, len(o.code), size)))
                continue
            for (bo, lab, add, stoff) in tags:
                want = (b + (stoff if lab == "." else labels[lab]) + add) & 0xFFFF
                got = o.code[bo] | (o.code[bo + 1] << 8)
                if got != want:
                    probs.append(("absolute-word", "base %o: word at offset %d holds %06o, the address it names is %06o" % (b, bo, got, want)))
        ref_b = bases[0]
        ro = imgs[ref_b][0]
        for b, (o, _t) in imgs.items():
            if b == ref_b or len(o.code) != len(ro.code):
                continue
            for wo in range(0, len(o.code) - 1, 2):
                if wo in tagged:
                    continue
                if o.code[wo:wo + 2] != ro.code[wo:wo + 2]:
                    probs.append(("non-address-word-moved", "word at offset %d differs between base %o (%s) and base %o (%s) although it holds no absolute address" % (
                        wo, ref_b, ro.code[wo:wo + 2].hex(), b, o.code[wo:wo + 2].hex())))
                    break
        seen = set()
        for sig, what in probs:
            if sig in seen:
                continue
            seen.add(sig)
            r.violation("%s:%s" % (sig, place), what, case, None, {("%o" % b): o.code.hex() for b, (o, _t) in imgs.items()})


FULL_BASES = True


def check(case, r, tier):
    global FULL_BASES
    FULL_BASES = tier == "thorough"
    k = case["k"]
    if k == "one":
        # replay of a single (sequence, placement)
        global PLACE
        saved = PLACE
        PLACE = [case["place"]]
        try:
            check_seq(case["idx"], r)
        finally:
            PLACE = saved
        return
    d, first = case["d"], case["first"]
    for rest in itertools.product(CORE if case.get("core") else range(len(S) if d <= 2 else N3), repeat=d - len(first)):
        check_seq(first + list(rest), r)
