"""C08 Every input ends in a result or a reported error — E1/E2, exhaustive small scope."""
import io
import re
import sys
import itertools
from .. import driver, faults

ID = "C08"
LEVEL = "model_checking"
EXHAUSTIVE = True
CHUNK = 1
CASE_TIMEOUT = 900
RULE = ("bounded-exhaustive small-scope exploration of source texts, each a fresh run of the real assembler: (a) every token string of length "
        "<= 3 (quick) / 4 (thorough) over a 46-token alphabet (mnemonics of each operand class, directives, literals of every kind, every "
        "operator and bracket, punctuation, newline); (b) the product of 66 operand consumers (every operand-stub class in every position, "
        "every metacommand parameter type, statement positions) x 194 operand shapes (every literal spelling, symbol forms, registers, "
        "bracket styles, strings, <n>, the 12 addressing syntaxes, every prefix/postfix/infix operator incl. erroring ones, calls, code "
        "blocks, empty, non-ASCII, out-of-range and huge numbers, stray punctuation) x 2 tails; (c) every definition graph on <= 3 names with "
        "6 definition forms x 7 uses (cyclic ones are the point); (d) size self-reference: 9 size-deferred statements x 9 later readers of "
        "'.' x 3 definitions of the size x 3 link regimes; (e) every failing program of (b)-(d) and of (a) up to length 2 rendered under the "
        "graphical and the bare report handler; (f) brackets and .repeat nested to depth 8, 60-statement programs made of (b)-cases; (g) every "
        "catalogue fault in linked and included files; (h) the four non-ASCII letters that case-insensitive matching treats as s, k, i substituted "
        "into every mnemonic, directive, register and literal prefix, in 16 statement templates, and non-ASCII digits as operands; (i) every "
        "include graph over 2 files (thorough: 3) with bodies of <= 3 (2) statements from {.include a/b(/c), .once, nop(, .end)}, judged "
        "against a reference expansion (finite: ok with that many nops; endless: a reported error); (j) every Python codec name and alias as "
        "--charset through the command line x 8 sources; (k) 8 astronomically large/small values x 58 consumers x 2 orders; (l) 25 programs with 10-97 statements whose size depends on their "
        "address while the link base or an earlier size is still unknown, each within a 20 s budget, and two programs of 24 such statements "
        "whose early attempts end in a circle (8 s budget; recorded findings). Oracle: the outcome is 'ok' or 'fail with >= 1 error diagnostic' - never an internal "
        "exception, a hang (step budget of hook 2, wall-clock back-stop) or a failure without diagnostic. state = one source text; "
        "non-trivial = distinct text whose outcome is not 'ok'")
ASSUMPTIONS = ["non-termination is decided by the step budget in deferred.wait() (hook 2) and a wall-clock back-stop; large finite work is not a violation "
               "(counts <= 200000 and one-statement bodies in size consumers; MemoryError is reported as 'resource')",
               "crash signature = exception type + innermost pdpy11 frame; known genuine defects are listed in known_findings.json by that signature"]

TOKENS = ["mov", "clr", "br", "sob", "emt", "nop", ".word", ".byte", ".blkb", ".ascii", ".repeat", ".link", ".end", ".even",
          "r0", "a", "1", "8", "10.", "'a", "\"", "/x/", "+", "-", "*", "/", "<<", "_", "&", "~", "^C", "(", ")", "<", ">", "{", "}", "^/",
          ",", ":", "=", ".", "#", "@", "%", "\n"]
assert len(TOKENS) == 46

CONSUMERS = [
    "clr §", "mov §, r0", "mov r0, §", "mov §, §", "jsr §, x", "jsr r1, §", "xor §, r1", "xor r1, §", "mul §, r1", "mul r1, §", "br §", "sob r0, §",
    "sob §, .", "emt §", "trap §", "spl §", "mark §", "rts §", "fadd §", "ldf §, ac0", "ldf ac0, §", "stf §, (r0)", "stf ac1, §", "tstf §",
    "stexp ac0, §", "ldexp §, ac1", "push §", "pop §", "call §", "nop §", "ret §",
    ".byte §", ".word §", ".dword §", ".blkb §", ".blkw §", ".align §", ".repeat § { nop }", ".link §", ". = §", "x = §", "x == §",
    ".ascii §", ".asciz §", ".rad50 §", ".include §", "insert_file §", "make_bin §", "make_wav §, §", "make_raw §", ".extern §", ".even §", ".end §",
    ".error §", ".list §", ".title §", ".ident §", ".page §", ".once §",
    "§", "§, §", "lbl: §", "§:", "§ = 5", ".repeat 2 { § }", ".word 1, §, 2",
    # a block whose count is only known later is assembled later, outside the file's own block
    ".repeat q9 { § }\nq9 = 2", ".repeat q9 { .repeat q8 { § } }\nq9 = 1\nq8 = 2", ".repeat q9 { nop\n§\nnop }\n.word q9\nq9 = 2",
    ".repeat q9 { § }\nq9 = 1\n.link .", ".repeat q9 { § }\nq9 = 1\n. = .+2", "lbl7: .repeat q9 { § }\nq9 = 1\n.link lbl7",
]
SHAPES = [
    # literals
    "0", "1", "7", "8", "19", "10.", "0x1f", "0o17", "0b101", "^X1F", "^O17", "^B101", "^D19", "^xq", "^B2", "0x", "0b2", "1x", "12$", "1$",
    "'a", "'a'", "''", "'", "\"ab", "\"a", "\"", "\"ab\"", "^Rabc", "^Rabcd", "^R", "-1", "-8", "-10.", "- 1", "+1", "200000", "-200000", "40000000000",
    "1 << 20000.", "1 << 70.", "1 >> -20000.", "1 _ 100000.", "1 >> 1 << 70.", "7 / 0", "7 % 0", "1 << -1", "1 >> -1",
    # symbols and registers
    "x", "a", "undef", "x:", "1:", "lbl", "r0", "r7", "sp", "pc", "R0", "%0", "%7", "%8", "%x", "%undef", "%-1", "ac0", "ac5", "ac6", "AC1", "r8", ".", "..", ". .",
    # brackets
    "(1)", "<1>", "^/1/", "^?1?", "((1))", "< <1> >", "(x)", "<x>", "(r0)", "<r0>", "()", "<>", "(", ")", "<", ">", "(1", "<1", "1)", "1>", "^/1", "^/",
    # strings
    "\"abc\"", "/abc/", "'abc'", "\"abc", "/abc", "\"\"", "//", "<12>", "<12><15>", "\"a\"<12>/b/", "<x>\"a\"", "<400>", "<-1>", "<undef>", "\"a\\nb\"", "\"a\\q\"", "\"a\\x4\"", "\"\\\"",
    "\"я\"", "\"α\"", "'α", "\"αα",
    # addressing syntaxes
    "(r1)+", "@(r1)+", "-(r1)", "@-(r1)", "2(r1)", "@2(r1)", "x(r1)", "@x(r1)", "#1", "@#1", "@1", "@r1", "@(r1)", "#x", "#", "@", "@#", "#@1", "##1", "@@1",
    "(%x)", "2(%x)", "(%x)+", "-(%x)", "@(%x)+", "@2(%x)", "@(%x)", "x(%y)", "(%undef)", "2+x(r1)", "-x(r1)", "(r1)-", "(r1)++", "--(r1)", "+(r1)", "(r1)(r2)", "1(2)", "x(1)", "r1(r2)", "(r1)+(r2)", "#(r1)+", "2(r1)+",
    # operators
    "1+2", "1-2", "1*2", "1/2", "1%2", "1<<2", "1>>2", "1_2", "1 _ 2", "1&2", "1^2", "1|2", "1!2", "~1", "^C1", "^c1", "+x", "-x", "~x", "-(1)", "1+", "1*", "+", "*", "1 2", "1,",
    ",1", ",", "1+-2", "1--2", "x+.", ".+x", "x*x", "x/x", "x-x", "1+2*3", "1 $ 2", "x $ y",
    # code blocks, empties, junk
    "\u0663", "\u0668", "\u00b2", "^D\u0663", "\u0663.", "1\u0663", "0x\u0663", "\u0663$", "\u0661\u0662", "\uff13", "\u2167", "^R\u212a", "^R\u0130", "\u017fp", "r\u0661",
    ".once", ".end\nnop", ".include \"inc2.mac\"", ".include \"once3.mac\"", "lbl9: nop", "1: nop", ". = .+2", ".link 3000", "make_bin", ".extern all", "q7 = .",
    "1" * 4301 + ".", "9" * 4301, "^D" + "7" * 4400, "1" * 4301, "0x" + "f" * 5000, "1" * 4301 + "./" + "1" * 4301 + ".",
    "{ nop }", "{", "}", "{ }", "{ { nop } }", "", " ", ";", "; comment", ":", "::", "=", "==", "= 1", "$", "?", "\\", "`", "\x00", "\t", " ", "nop", "mov", ".word", ".end",
]
BIG_SHAPES = {"40000000000", "1 << 20000.", "1 << 70.", "1 _ 100000.", "200000", "1 >> -20000.", "1 >> 1 << 70.",
              "1" * 4301 + ".", "9" * 4301, "^D" + "7" * 4400, "1" * 4301, "0x" + "f" * 5000}
TAILS = ["", "\nx = 4\na = 6\ny = 2\nlbl: nop\n"]

DEF_FORMS = ["%s = %s", "%s = %s+1", "%s = %s*2", "%s = %s/2"]
DEF_SELF = ["%s = .", "%s:"]
USES = [".word a", ".blkb a", ".repeat a { nop }", ".align a", ".link a", ". = a", "br a"]

SIZE_STMTS = [".blkb n", ".blkw n", ".repeat n { nop }", ".align n", ". = .+n", ".ascii <n>", ".even", "insert_file \"f5.bin\"", ".include \"inc2.mac\""]
DOT_READERS = [".word .", "mov #., r0", "br .", "q = .\n.word q", ".blkb .&3", ". = .+2", ".even", ".align 4", ".link ."]
N_DEFS = ["n = 2", "n = e - s", "n = t - s"]
TREE = {"f5.bin": b"\x01\x02\x03\x04\x05", "inc2.mac": ".byte 7\n.byte 10\n.byte 11\n", "once3.mac": ".once\n.byte 3\n"}


# (h) letters that Python's case-insensitive matching and str.upper()/lower() treat as variants of ASCII letters
FOLD_CHARS = [("\u017f", "s"), ("\u212a", "k"), ("\u0131", "i"), ("\u0130", "i")]
FOLD_TEMPLATES = ["%s", "%s r0", "%s r0, r1", "%s 1", "%s /x/", "%s x\nx = 2", "lbl: %s", "%s:", "%s = 5\n.word %s", ".word %s", "mov #%s, r0", "clr (%s)", "clr %s", ".rad50 /%s/",
                  ".ascii /%s/", "%s { nop }"]


def fold_words():
    """every mnemonic, directive, register name, accumulator and literal prefix of the implementation"""
    from pdpy11.builtins import builtin_commands
    words = set(w.lower() for w in builtin_commands)
    words |= {"r0", "r5", "sp", "pc", "ac0", "ac3", "^rsk", "^ri", "^xf", "0x1f", "^c1", "^d19", "^o17", "^b1", "^rkis", "1$", "k", "s", "i", "is", "ski"}
    return sorted(words)


# (i) include graphs: files a.mac and b.mac (thorough: also c.mac), every body of <= 3 (thorough: 2) statements
def inc_bodies(tier):
    files = ["a", "b", "c"] if tier == "thorough" else ["a", "b"]
    # (the third form is an include that is carried out late: the count of its block is defined at the end of the file)
    alphabet = [".include \"%s.mac\"" % f for f in files] + [".once", "nop"] + ([".end"] if tier == "thorough" else []) + [".repeat rq { .include \"%s.mac\" }" % f for f in files[:2]]
    out = [()]
    plain = [a for a in alphabet if not a.startswith(".repeat")]
    for n in range(1, (2 if tier == "thorough" else 3) + 1):
        # bodies of three statements only without the late form (the product of the bodies of all files is what is enumerated)
        out += list(itertools.product(alphabet if n <= 2 else plain, repeat=n))
    return out


def include_reference(bodies):
    """number of nops the include graph expands to, or None when the expansion never ends"""
    counts = {}

    class Infinite(Exception):
        pass

    def expand(name, depth):
        if depth > 2 * len(bodies) + 4:
            raise Infinite()
        counts[name] = counts.get(name, 0) + 1
        n = 0
        for st in bodies[name]:
            if st == ".once":
                if counts[name] > 1:
                    break
            elif st == ".end":
                break
            elif st == "nop":
                n += 1
            else:
                # (a file whose only way out is '.once' *below* a late include is entered again before the guard is reached
                # only if the include really is carried out before it; the reference follows source order, as for a literal count)
                n += expand(st.split('"')[1][:-4], depth + 1)
        return n
    try:
        return expand("a", 0)
    except Infinite:
        return None


def charset_names():
    import encodings.aliases
    import pkgutil
    import encodings
    names = set(encodings.aliases.aliases.values()) | set(m.name for m in pkgutil.iter_modules(encodings.__path__))
    names -= {"aliases", "mbcs", "oem"}
    return sorted(names) + ["bk", "BK", "Bk", "KOI8-R", "utf8", "UTF-8", "latin-1", "", " ", "bk ", "x" * 300, "no-such", "bk\x00"]


CHARSET_SOURCES = ["\t.ascii /abc/\n", "\t.ascii /\u041f\u0440\u0438\u0432\u0435\u0442/\n", "\t.byte 'a\n\t.word \"ab\n", "\t.byte '\u044f\n", "\t.asciz /a..b/\n\t.ascii /-/\n\t.ascii /xn--/\n",
                   "\t.ascii /\u20ac\udcff/\n" if False else "\t.ascii /\u20ac/\n", "\tnop\nmake_wav \"t.wav\", \"\u0438\u043c\u044f\"\n", "\t.ascii //\n\t.rad50 /abc/\n"]

# (j) astronomically large and small values reaching every consumer
HUGE = ["h = 1 << 60000.\nhh = h * h", "h = 1 << 60000.\nhh = 0 - h * h", "hh = 1 << 100000.", "hh = 0 - <1 << 100000.>", "hh = 1 << 40.", "hh = 0 - <1 << 40.>",
        "hh = 77777777777777777777777777777777777777777777777777", "h = 1 << 60000.\nhh = h * h * h * h / h"]
HUGE_USES = [".word 1 << hh", ".word 1 >> hh", ".word 1 _ hh", ".word hh << 1", ".word hh >> 1", ".word hh _ 1", ".word hh _ hh", ".word hh << hh", ".word hh >> hh",
             ".word hh", ".byte hh", ".dword hh", ".word hh / hh", ".word hh % 7", ".word 7 % hh", ".word 7 / hh", ".word hh & 7", ".word hh | 7", ".word hh ^ 7", ".word ~hh", ".word ^C hh",
             ".word -hh", ".word hh * hh & 1", ".word hh - hh", ".word hh + 1 - hh", "mov #hh, r0", "mov hh, r0", "mov hh(r1), r0", "clr @#hh", "br hh", "sob r0, hh", "emt hh", "trap hh",
             "mark hh", "spl hh", ".ascii <hh>", ".rad50 <hh>", ".link hh", ". = hh", ".link 1000\nnop\n. = hh", "x = hh\n.word x & 1", ".word <hh>", ".word (hh)", "mov #hh - hh + 5, r0",
             ".blkb hh - hh + 2", ".repeat hh - hh + 2 { nop }", ".align hh", ".blkb hh", ".blkw hh", ".repeat hh { nop }", ". = . + hh", ".even\n.word hh * 0", "make_wav \"t.wav\", <hh>",
             ".include <hh>", ".error hh", "ldf #hh, ac0", "mul #hh, r1", "clr %hh", "mov (%hh), r0",
             # a skip between the labels of a link expression in which the base cancels (its length is taken symbolically)
             ".link 1000 + e7 - s7\ns7: . = . + hh\ne7: nop", ".link 1000 + e7 - s7\ns7: nop\n. = s7 + hh\ne7: nop", ".link 1000\n.blkb e7 - s7\ns7: . = . + hh\ne7: nop"]
# (m) values at and next to the boundary of every field width reaching every consumer, also several operands in one statement
EDGE = [-65537, -65536, -32769, -32768, -257, -256, -129, -128, -64, -1, 0, 1, 7, 8, 38, 39, 40, 41, 63, 64, 65, 127, 128, 129, 255, 256, 257, 511, 512,
        1599, 1600, 32767, 32768, 32769, 63999, 64000, 65535, 65536, 65537, 2 ** 31 - 1, 2 ** 31, 2 ** 32 - 1, 2 ** 32]
EDGE_USES = HUGE_USES + [".rad50 <hh><47>", ".rad50 <hh>/99/", ".rad50 /9/<hh>/9/", ".rad50 /99/<hh>", ".rad50 <hh><hh><hh>", ".ascii <hh><hh>", ".asciz /a/<hh>", ".byte hh, hh", ".word hh, hh",
                         ".dword hh, hh", "cmp #hh, #hh", "mov hh(r1), hh(r2)", "xfc hh", "sys hh", "ash #hh, r0", "sob r1, . - hh", "br . + hh", "br . - hh", "jmp hh(pc)", ".odd\n.byte hh\n.even",
                         "make_wav \"t.wav\", \"n\"<hh>", ".word 'a + hh", ".word ^C<hh>", ".word hh _ -hh", ".word hh % hh", ".word hh / hh"]
EDGE_BIG_WORK = 70000
# (n) exporting, defining and using one name in every order over one and two files (an export may come without, or before, its definition)
EXTERN_EVENTS = [".extern g", ".extern all", "g: nop", "g = 5", "g:: nop", "g == 5", ".word g", "br g", ".blkb g & 3", ".even", "mov #g, r0"]
# uses whose work is proportional to the value: only with the moderate values (resource guard, see ASSUMPTIONS)
HUGE_SIZE_USES = {".blkb hh", ".blkw hh", ".repeat hh { nop }", ". = . + hh", ". = hh", ".link 1000\nnop\n. = hh"}


def bound(tier):
    return ("token strings <= %d over 46 tokens; %d consumers x %d shapes x 2 tails; definition graphs on <= 3 names x 7 uses; 729 size self-reference programs; nesting depth 8; "
            "%d include graphs; %d charset names; %d huge-value programs; case-fold letters in %d words" % (
                4 if tier == "thorough" else 3, len(CONSUMERS), len(SHAPES), len(inc_bodies(tier)) ** (3 if tier == "thorough" else 2), len(charset_names()),
                len(HUGE) * len(HUGE_USES) * 2, len(fold_words())))


def cases(tier):
    n = 4 if tier == "thorough" else 3
    for d in range(1, n + 1):
        if d <= 2:
            yield {"k": "tokens", "d": d, "first": []}
        elif d == 3:
            for t in range(len(TOKENS)):
                yield {"k": "tokens", "d": d, "first": [t]}
        else:
            for t in range(len(TOKENS)):
                for u in range(len(TOKENS)):
                    yield {"k": "tokens", "d": d, "first": [t, u]}
    for ci in range(len(CONSUMERS)):
        yield {"k": "consumer", "c": ci}
    for nn in (1, 2):
        yield {"k": "graphs", "n": nn}
    for first in range(len(DEF_FORMS) * 3 + len(DEF_SELF)):
        for second in range(0, len(DEF_FORMS) * 3 + len(DEF_SELF), 7):
            yield {"k": "graphs", "n": 3, "first": first, "second": [second, second + 7]}
    yield {"k": "selfref"}
    yield {"k": "nesting"}
    for i in range(0, len(CONSUMERS) * len(SHAPES), 60 * 40):
        yield {"k": "long", "start": i}
    yield {"k": "faults"}
    yield {"k": "cli"}
    yield {"k": "cli-mute"}
    yield {"k": "relayout"}
    for ch in range(len(FOLD_CHARS)):
        yield {"k": "fold", "ch": ch}
    for b in range(len(inc_bodies(tier))):
        yield {"k": "includes", "a": b}
    names = charset_names()
    for i in range(0, len(names), 12):
        yield {"k": "charsets", "lo": i, "hi": i + 12}
    for h in range(len(HUGE)):
        yield {"k": "huge", "h": h}
    for e in range(len(EDGE)):
        yield {"k": "edge", "e": e}
    for first in range(len(EXTERN_EVENTS)):
        yield {"k": "externs", "first": first}


class _Sink(io.TextIOBase):
    def write(self, s):
        return len(s)


def render_check(files, tree, r, case):
    """(e): the same failing program under the two real report handlers; a formatter crash is an internal error too"""
    from pdpy11 import reports, parser
    from pdpy11.compiler import Compiler
    import os
    root = os.path.join(driver.scratch_root(), "m")
    for fmt, cls in (("graphical", reports.GraphicalHandler), ("bare", reports.BareHandler)):
        old = (sys.stdout, sys.stderr)
        sys.stdout = sys.stderr = _Sink()
        status = "ok"
        try:
            handler = reports.FilterHandler(cls(), {w: True for w in reports.WARNING_CLASSES["all"]})
            try:
                with reports.handle_reports(handler):
                    parsed = [parser.parse(os.path.join(root, n), t) for n, t in files]
                    Compiler().compile_and_link_files(parsed)
            except reports.UnrecoverableError:
                status = "fail"
            except driver.VerifHang:
                status = "hang"
            except MemoryError:
                status = "resource"
            except Exception as ex:
                status = "crash:%s@%s" % (type(ex).__name__, driver.crash_site(ex.__traceback__))
        finally:
            sys.stdout, sys.stderr = old
            if driver.module_state_dirty():
                driver.reset_module_state()
        r.ran("render-" + status.split(":")[0], key=None, nontrivial=False)
        if status.startswith("crash") and "reports.py" in status:
            r.violation("formatter-%s:%s" % (fmt, status), "the %s report handler crashed while rendering a diagnostic" % fmt, case, "fail", status)


def has_cycle(text):
    """predicate used in signatures: the symbol-definition graph of the program has a cycle"""
    defs = {}
    for m in re.finditer(r"(?m)^\s*([a-z_][a-z0-9_]*)\s*==?\s*([^\n;]*)", text):
        defs.setdefault(m.group(1), set()).update(re.findall(r"[a-z_][a-z0-9_]*", m.group(2)))
    seen, stack = set(), set()

    def visit(n):
        if n in stack:
            return True
        if n in seen or n not in defs:
            return False
        seen.add(n)
        stack.add(n)
        res = any(visit(m) for m in defs[n])
        stack.discard(n)
        return res
    return any(visit(n) for n in defs)


def judge(text, r, key, render, tree=None, files=None):
    files = files or [("p.mac", text)]
    out = driver.assemble(files, tree=tree)
    r.states += 1
    r.trans += 1
    nontrivial = out.status != "ok"
    r.ran(out.cls(), key=key if nontrivial else None, nontrivial=nontrivial)
    case = {"k": "text", "text": text, "tree": bool(tree)} if len(files) == 1 else {"k": "files", "files": [list(f) for f in files], "tree": bool(tree)}
    if out.status == "ok" or out.status == "fail" or out.status == "resource":
        if out.status == "fail" and render:
            render_check(files, tree, r, case)
        return out
    if out.status == "crash":
        sig = "crash:%s@%s" % (out.exc, out.site)
        what = "internal exception %s in %s" % (out.exc, out.site)
    elif out.status == "hang":
        sig = "hang@deferred.py:wait:%s" % ("cyclic-definitions" if has_cycle(text) else "no-definition-cycle")
        what = "assembly does not terminate (step budget of wait() exhausted)"
    else:
        sig = out.status
        what = "failure without any error diagnostic" if out.status == "silent-fail" else out.status
    r.violation(sig, what, case, "ok or fail", out.brief())
    return out


def cli_judge(r, argv, tree):
    import shutil
    co = driver.cli(argv, tree, keep=True)
    try:
        r.states += 1
        r.trans += 1
        key = ("cli", tuple(argv), tuple(sorted((k2, v if isinstance(v, str) else len(v)) for k2, v in tree.items())))
        bad = co.internal_error or co.exit not in (0, 1, 2)
        r.ran("cli-internal-error" if bad else "cli-exit-%s" % co.exit, key=key, nontrivial=True)
        if bad:
            m = re.search(r"(\w+(?:Error|Exception))[^\n]*\s*$", co.stderr.strip())
            site = re.findall(r'File "[^"]*/pdpy11/([^"]+)", line \d+, in (\w+)', co.stderr)
            sig = "cli:internal-error:%s@%s" % (m.group(1) if m else "?", ":".join(site[-1]) if site else "?")
            r.violation(sig, "the command line ended in the internal-compiler-error path", {"k": "cli-run", "argv": argv, "tree": {k2: (v if isinstance(v, str) else v.hex()) for k2, v in tree.items()}},
                        "exit 0 or 1 with diagnostics", co.stderr[-300:])
    finally:
        shutil.rmtree(co.root, ignore_errors=True)


def check(case, r, tier):
    k = case["k"]
    if k == "text":
        judge(case["text"], r, None, True, tree=TREE if case.get("tree") else None)
        return
    if k == "files":
        tree = case.get("tree")
        judge(None, r, None, True, tree=tree if isinstance(tree, dict) else (TREE if tree else None), files=[tuple(f) for f in case["files"]])
        return
    if k == "tokens":
        d, first = case["d"], case["first"]
        for rest in itertools.product(range(len(TOKENS)), repeat=d - len(first)):
            idx = first + list(rest)
            text = " ".join(TOKENS[i] for i in idx) + "\n"
            judge(text, r, text, render=(d <= 2))
        return
    if k == "consumer":
        c = CONSUMERS[case["c"]]
        size_consumer = c.split()[0] in (".blkb", ".blkw", ".align", ".repeat", ".") 
        for s in SHAPES:
            if size_consumer and s in BIG_SHAPES:
                continue   # large finite work (a 4 GB fill, 4e9 iterations) is not non-termination: resource guard
            for tail in TAILS:
                text = c.replace("§", s) + tail + "\n"
                judge(text, r, text, True, tree=TREE)
        return
    if k == "graphs":
        names = ["a", "b", "c"][:case["n"]]
        choices = []
        for nm in names:
            opts = [f % (nm, t) for f in DEF_FORMS for t in names] + [f % nm for f in DEF_SELF]
            choices.append(opts)
        if "first" in case:
            choices[0] = [choices[0][case["first"]]]
            choices[1] = choices[1][case["second"][0]:case["second"][1]]
        for combo in itertools.product(*choices):
            for use in USES:
                for order in ("use-first", "use-last"):
                    body = "\n".join(combo)
                    text = (use + "\n" + body if order == "use-first" else body + "\n" + use) + "\n"
                    judge(text, r, text, True)
        return
    if k == "selfref":
        for s in SIZE_STMTS:
            for t in DOT_READERS:
                for nd in N_DEFS:
                    for reg in ("first", "last", "none"):
                        text = (".link 1000\n" if reg == "first" else "") + "s: nop\n" + s + "\nt: " + t + "\ne: nop\n" + nd + "\n" + (".link 1000\n" if reg == "last" else "")
                        judge(text, r, text, True, tree=TREE)
        return
    if k == "nesting":
        for depth in range(1, 9):
            for o, c in (("(", ")"), ("<", " >"), ("^/", "/"), ("^?", "?")):
                for leaf in ("1", "x", ".", "r0", ""):
                    e = (o + " ") * depth + leaf + (" " + c) * depth
                    for ctx in (".word %s", "mov #%s, r0", "clr %s", "br %s", ".blkb %s", "x = %s"):
                        text = ctx % e + "\n"
                        judge(text, r, text, True)
                    # unbalanced variants
                    judge(".word " + (o + " ") * depth + leaf + "\n", r, None, True)
            rep = "nop"
            for _ in range(depth):
                rep = ".repeat 1 { %s }" % rep
            judge(rep + "\n", r, rep, True)
            rep2 = ".byte ."
            for _ in range(depth):
                rep2 = ".repeat 2 { %s\n.even }" % rep2
            judge(".link 1000\n" + rep2 + "\n", r, rep2, True)
            judge(".repeat 2 {" * depth + "\n", r, None, True)
            judge("}" * depth + "\n", r, None, True)
        return
    if k == "long":
        # 60-statement programs made of consecutive (b)-cases
        allp = [(c, s) for c in CONSUMERS for s in SHAPES]
        for start in range(case["start"], min(case["start"] + 60 * 40, len(allp)), 60):
            chunk = allp[start:start + 60]
            text = "\n".join(c.replace("§", s) for c, s in chunk) + "\n"
            judge(text, r, ("long", start), True, tree=TREE)
        return
    if k == "cli":
        # the output stage of the command line belongs to "assembling" too: none of these may reach the internal-error path
        import shutil
        big = "\t.blkb 177777\n\t.blkb 177777\n\tnop\n"
        small = "start:\tmov #start, r0\n"
        runs = []
        for out_args, directives in ((["-o", "x.bin"], ""), (["-o", "x.raw"], ""), ([], "make_bin\n"), ([], "make_wav\n"), ([], "make_turbo_wav\n"),
                                     ([], "make_raw\nmake_bin\n"), (["--implicit-bin"], ""), (["-o", "-"], ""), (["-o-.bin"], ""), (["-o", "nodir/x.bin"], ""),
                                     ([], "make_bin \"nodir/x.bin\"\n"), ([], "make_wav \"t.wav\", \"\u03b1\"\n"), ([], "make_wav \"\u0451.wav\"\n"),
                                     ([], "make_wav \"t.wav\", \"seventeen letters!\"\n"), ([], "make_bin \"\"\n"), ([], "make_raw \".\"\n"), ([], "make_bin \"~speaker\"\n"),
                                     ([], "make_raw \"x\" <0>\n"), ([], "make_bin <0>\n"), ([], "make_bin \"a\" <55296.>\n"), ([], "make_wav <0xd800>, \"NAME\"\n"), ([], "make_wav \"t.wav\", \"N\" <0xd800>\n"),
                                     ([], "make_raw \"" + "d/" * 3000 + "x\"\n"), ([], "make_raw \"" + "n" * 300 + "\"\n")):
            for src in (small, big):
                for extra in ([], ["--lst"], ["--report-format", "bare"]):
                    runs.append((["m.mac"] + out_args + extra, {"m.mac": src + directives}))
        runs.append((["missing.mac"], {}))
        runs.append((["m.mac", "--charset", "no-such-charset"], {"m.mac": small}))
        runs.append((["m.mac", "--charset", "utf-16"], {"m.mac": small + "\t.ascii \"ab\"\n"}))
        runs.append((["bad.mac"], {"bad.mac": b"\xff\xfe\x00nop\n"}))
        runs.append((["d"], {"d/keep": ""}))
        runs.append((["m.mac", "m.mac"], {"m.mac": small}))
        runs.append((["m.mac", "-Wnonsense", "-Wno-nonsense"], {"m.mac": small}))
        runs.append((["-"], {}))
        for argv, tree in runs:
            cli_judge(r, argv, tree)
        return
    if k == "relayout":
        # many statements whose size depends on their address, while something they depend on is not known yet (the link base, a size
        # defined at the end): short inputs that must not take an amount of work that doubles with every statement
        import signal

        class Budget(BaseException):
            pass
        progs = []
        for n in (10, 20, 40, 97):
            progs.append(("repeat-even-%d" % n, ".repeat %d. { .even\n.byte 1 }\n" % n))
            progs.append(("evens-late-link-%d" % n, ".byte 1\n" + ".even\n.byte 1\n" * n + ".link 2001\n"))
            progs.append(("evens-late-size-%d" % n, ".link 1000\n.blkb a\n" + ".byte 1\n.even\n" * n + "a = 3\n"))
            progs.append(("aligns-default-base-%d" % n, ".byte 1\n" + ".align 4\n.byte 2\n.odd\n" * (n // 2)))
            progs.append(("skips-late-size-%d" % n, ".link 1000\n.blkb a\n" + "".join(". = a+%d.\n" % (2 * i + 2000) for i in range(n)) + "a = 3\n"))
            progs.append(("ascii-dot-%d" % n, "".join(".ascii <.&77>\n.even\n" for _ in range(n // 2)) + ".link 3000\n"))
        progs.append(("repeat-char-even", ".repeat 'a { .even\n"))
        # the same growth where an early attempt ends in a *circle* (which is not remembered) instead of in "not known yet":
        # recorded, unrepaired findings (DESIGN.md section 17) - a shorter budget, since running out of it is the expected outcome
        cyclic = [("skips-between-cancelling-labels-24", ".link 1000+e-s\ns: " + "nop\n. = . + 2\n" * 24 + "e: nop\n"),
                  ("sizes-of-dot-without-link-24", ".blkb 2-<.&1>\n" * 24)]
        for name, text in progs + cyclic:
            budget = 8 if (name, text) in cyclic else 20
            fired = []

            def over(*_a):
                fired.append(1)
                raise Budget()
            old = signal.signal(signal.SIGALRM, over)
            signal.setitimer(signal.ITIMER_REAL, budget)
            out = None
            try:
                out = driver.assemble([("p.mac", text)])
            except Budget:
                pass
            finally:
                signal.setitimer(signal.ITIMER_REAL, 0)
                signal.signal(signal.SIGALRM, old)
            r.states += 1
            if fired:
                # (the interrupt may surface as any exception raised while the stack unwinds: the timer decides)
                if driver.module_state_dirty():
                    driver.reset_module_state()
                r.ran("hang", key=("relayout", name))
                sig = ("hang:work-doubles-with-every-address-dependent-statement" if (name, text) not in cyclic else
                       "hang:work-doubles:attempts-that-end-in-a-circle:" + name.rsplit("-", 1)[0])
                r.violation(sig, "%s: not assembled within %d s (%d bytes of source)" % (name, budget, len(text)),
                            {"k": "relayout-one", "name": name, "text": text, "budget": budget}, "ok or fail", "no result within %d s" % budget)
                continue
            r.ran(out.cls(), key=("relayout", name), nontrivial=True)
            if out.status not in ("ok", "fail", "resource"):
                r.violation("%s:%s@%s" % (out.status, out.exc, out.site) if out.status == "crash" else out.status, "layout program %s" % name, {"k": "text", "text": text, "tree": False}, "ok or fail", out.brief())
        return
    if k == "relayout-one":
        import signal
        import time as _t
        t0 = _t.time()

        class B2(BaseException):
            pass

        def over2(*_a):
            raise B2()
        old = signal.signal(signal.SIGALRM, over2)
        signal.setitimer(signal.ITIMER_REAL, case["budget"])
        try:
            driver.assemble([("p.mac", case["text"])])
            done = True
        except B2:
            done = False
            if driver.module_state_dirty():
                driver.reset_module_state()
        finally:
            signal.setitimer(signal.ITIMER_REAL, 0)
            signal.signal(signal.SIGALRM, old)
        r.ran("ok" if done else "hang", key=None)
        if not done:
            r.violation("hang:work-doubles:replay", "%s: not assembled within %d s" % (case["name"], case["budget"]), case, "ok or fail", "no result in %.0f s" % (_t.time() - t0))
        return
    if k == "cli-mute":
        # a failing run says why whatever -W options are given: every catalogue error x the -Wno- options that could name it
        from .c07 import error_indications
        import shutil
        for e in faults.E:
            if e["sev"] != "error":
                continue
            body = "start:\tmov #start, r0\n" + "".join("\t" + l + "\n" for l in e["text"].split("\n")) + "\thalt\n"
            tree = dict(e["tree"])
            tree["m.mac"] = body
            probe = driver.assemble([("m.mac", body)], tree=e["tree"] or None)
            kinds = sorted(set(probe.error_kinds())) if probe.status == "fail" else []
            wsels = [["-Wno-all"], ["-Wno-default"], ["-Wno-all", "-Wno-default"]] + [["-Wno-" + kd] for kd in kinds] + [["-W" + kd] for kd in kinds[:1]]
            for wsel in wsels:
                for fmt in ("graphical", "bare"):
                    argv = ["m.mac", "-o", "m.bin", "--report-format", fmt] + wsel
                    co = driver.cli(argv, tree, keep=True)
                    try:
                        r.states += 1
                        r.trans += 1
                        said = error_indications(co, fmt) > 0
                        good = co.exit == 1 and said and not co.internal_error
                        r.ran("cli-fail-said" if good else "cli-bad", key=("cli-mute", e["id"], tuple(wsel), fmt), nontrivial=True)
                        if not good and not co.internal_error:
                            sig = "cli:failure-without-diagnostic" if co.exit != 0 else "cli:error-but-success"
                            r.violation("%s:%s" % (sig, "+".join(kinds) or e["id"]), "fault %s with %s: exit %r, %s" % (e["id"], wsel, co.exit, "an Error was shown" if said else "no Error diagnostic was shown"),
                                        {"k": "cli-run", "argv": argv, "tree": {k2: (v if isinstance(v, str) else v.hex()) for k2, v in tree.items()}, "must_say": True},
                                        "exit 1 with an Error diagnostic", (co.stderr + co.stdout.decode("utf-8", "replace"))[-300:])
                        elif co.internal_error:
                            cli_judge(r, argv, tree)
                    finally:
                        shutil.rmtree(co.root, ignore_errors=True)
        return
    if k == "cli-run":
        tree = {k2: (v if not re.fullmatch(r"(?:[0-9a-f]{2})+", v) or k2.endswith(".mac") and "\n" in v else bytes.fromhex(v)) for k2, v in case["tree"].items()}
        cli_judge(r, case["argv"], tree)
        if case.get("must_say"):
            from .c07 import error_indications
            import shutil
            co = driver.cli(case["argv"], tree, keep=True)
            shutil.rmtree(co.root, ignore_errors=True)
            fmt = case["argv"][case["argv"].index("--report-format") + 1]
            if co.exit != 1 or error_indications(co, fmt) == 0:
                r.violation("cli:failure-without-diagnostic:replay", "exit %r" % co.exit, case, None, co.stderr[-300:])
        return
    if k == "fold":
        ch, asc = FOLD_CHARS[case["ch"]]
        for w in fold_words():
            for pos in [i for i, c in enumerate(w) if c == asc]:
                for variant in (ch, ch.upper(), ch.lower()):
                    w2 = w[:pos] + variant + w[pos + 1:]
                    if w2 == w or w2.lower() == w and w2.isascii():
                        continue
                    for t in FOLD_TEMPLATES:
                        text = t.replace("%s", w2) + "\n"
                        judge(text, r, text, True)
        return
    if k == "includes":
        bodies = inc_bodies(tier)
        a = bodies[case["a"]]
        names = ["a", "b", "c"] if tier == "thorough" else ["a", "b"]
        for rest in itertools.product(bodies, repeat=len(names) - 1):
            tree = {}
            for nm, body in zip(names, (a,) + rest):
                tree[nm + ".mac"] = "".join("\t" + st + "\n" for st in body)
            key = tuple(sorted(tree.items()))
            # the count of the late blocks is exported by a file linked after everything else
            late = [("zq.mac", "rq == 1\n")] if any("rq" in t for t in tree.values()) else []
            out = judge(None, r, key, False, tree=tree, files=[("a.mac", tree["a.mac"])] + late)
            # reference expansion: '.once' lets a file contribute only the first time, '.end' stops a file, a nop is two bytes;
            # with '.once' as the only way out no finite expansion nests deeper than twice the number of files
            want = include_reference(dict(zip(names, (a,) + rest)))
            if out.status in ("ok", "fail"):
                # (with late blocks the '.once' guards fire in the order in which the blocks are carried out, not in source order - a
                # recorded finding of DESIGN.md section 13, not C08's subject: only termination and the outcome class are demanded then)
                good = (out.status == "fail") if want is None else (out.status == "ok" and (bool(late) or out.code == b"\xa0\x00" * want))
                if not good:
                    r.violation("include-graph:%s-but-%s" % (out.status, "infinite" if want is None else "finite"),
                                "files that include one another: %s" % ("the inclusion never ends, an error is due" if want is None else "the inclusion ends, %d nops are due" % want),
                                {"k": "files", "files": [["a.mac", tree["a.mac"]]] + [list(f) for f in late], "tree": tree}, "fail" if want is None else "ok, %d bytes" % (2 * want), out.brief())
        return
    if k == "charsets":
        for cs in charset_names()[case["lo"]:case["hi"]]:
            for src in CHARSET_SOURCES:
                if "\x00" in cs:
                    continue
                cli_judge(r, ["m.mac", "-o", "m.bin", "--charset", cs], {"m.mac": src})
        return
    if k == "huge":
        defs = HUGE[case["h"]]
        moderate = "40." in defs
        for use in HUGE_USES:
            if use in HUGE_SIZE_USES and not moderate:
                continue
            if moderate and use in (".blkb hh", ".blkw hh", ".repeat hh { nop }", ". = . + hh"):
                continue   # 2^40 bytes or iterations: large finite work
            for order in (0, 1):
                text = (defs + "\n" + use if order == 0 else use + "\n" + defs) + "\n"
                judge(text, r, text, True, tree=TREE)
        return
    if k == "edge":
        v = EDGE[case["e"]]
        lit = ("%d." % v) if v >= 0 else ("0 - %d." % -v)
        for use in EDGE_USES:
            if use in HUGE_SIZE_USES | {".blkb hh", ".blkw hh", ".repeat hh { nop }", ". = . + hh"} and abs(v) > EDGE_BIG_WORK:
                continue
            for form in (0, 1, 2):
                # written as a literal, through a symbol defined above, through a symbol defined below
                text = (use.replace("hh", "<%s>" % lit) if form == 0 else ("hh = %s\n" % lit + use if form == 1 else use + "\nhh = %s" % lit)) + "\n"
                judge(text, r, text, False, tree=TREE)
        return
    if k == "externs":
        ev = EXTERN_EVENTS
        f = ev[case["first"]]
        one = [[f]] + [[f, a] for a in ev] + [[f, a, b] for a in ev for b in ev]
        for seq in one:
            text = ".link 1000\n" + "\n".join(seq) + "\n"
            judge(text, r, text, False)
        short = [[]] + [[a] for a in ev] + [[a, b] for a in ev for b in ev]
        for s1 in ([f], ) + tuple([f, a] for a in ev):
            for s2 in short[1:]:
                for link in (0, 1):
                    files = [("p1.mac", (".link 1000\n" if link == 0 else "") + "\n".join(s1) + "\n"), ("p2.mac", "\n".join(s2) + "\n" + (".link 1000\n" if link else ""))]
                    judge(None, r, (tuple(s1), tuple(s2), link), False, files=files)
        return
    if k == "faults":
        for e in faults.E:
            frag = "".join("\t" + l + "\n" for l in e["text"].split("\n"))
            body = "start:\tmov #start, r0\n\t.word 1, 2\n" + frag + "lp:\tsob r3, lp\n\thalt\n"
            t2 = dict(TREE)
            t2.update(e["tree"])
            t2["sub/inc.mac"] = body
            judge(body, r, ("fault", e["id"], "main"), True, tree=t2)
            judge(None, r, ("fault", e["id"], "second"), True, tree=t2, files=[("m.mac", "\tnop\nfirst::\tnop\n"), ("n.mac", body)])
            judge(None, r, ("fault", e["id"], "included"), True, tree=t2, files=[("m.mac", "\tnop\n\t.include \"sub/inc.mac\"\n\tnop\n")])
            judge(None, r, ("fault", e["id"], "included-twice"), True, tree=t2, files=[("m.mac", "\t.include \"sub/inc.mac\"\n"), ("n.mac", "\t.include \"sub/inc.mac\"\n")])
        return
