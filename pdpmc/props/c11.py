"""C11 Symbol scoping and linking — E2 over file configurations, reference resolver."""
import itertools
from .. import driver

ID = "C11"
LEVEL = "model_checking"
EXHAUSTIVE = True
CHUNK = 1
CASE_TIMEOUT = 900
RULE = ("all configurations of placed events up to the event bound: per file an ordered sequence over {private 'x = K', private 'x:', "
        "exported 'x == K', exported 'x::', '.extern x', '.extern all', use of x} with 2 (quick) / 3 (thorough) linked files, every "
        "order inside each file, uses written in an eagerly evaluated form (mov #x, r0) and a lazily evaluated one (.word x), under the "
        "link regimes {base set first, base set last, default}; the same with the second file reached through '.include' instead of "
        "linking; a bystander name y that must not interfere; local-label families: every sequence of <= 5 events over {define 1$, use "
        "1$, ordinary label, exported label 'name::', include of a file with its own 1$} for '.word 1$' and 'br 1' uses. Oracle = reference resolver written from "
        "the statement: own definition first, else the unique exported one, else an error; duplicate definitions/exports are errors; "
        "local names bind inside the region between ordinary labels of their own file; 13 regions with every pair of regions x 10 local names "
        "of one and two digits (with and without $) defined or only used. Expected bytes follow from the bound definitions. "
        "state = one configuration; transition = one placed event; non-trivial = distinct (configuration, regime, use form)")
ASSUMPTIONS = ["configurations the statement leaves open are not generated: one name exported twice by the same file through two means, "
               "'.extern x' in a file that never defines x, a file included twice",
               "values: x = 11*(file number) for assignments, label addresses from the fixed-size layout"]
EV = ["D", "E", "L", "G", "X", "A", "U", "R"]   # R = an unrelated '.repeat 2 { nop }' (a nested block compiled inside the file)
REG = ["first", "last", "none"]
BASE = {"first": 0o2000, "last": 0o2000, "none": 0o1000}


# many regions: local names of several digits in one region and shorter ones in a later region (region numbers reach two digits)
NSCOPES = 13
LOCAL_NAMES = ["1", "2", "12", "21", "1$", "2$", "12$", "21$", "3", "13"]


def scopes_program(i, a, j, b, a_defined, opener):
    """the start of the file and 13 regions opened by ordinary labels (or by .repeat 1 blocks before them); region i uses local a, region j defines and uses local b"""
    lines, words, addr = [], [], 0o1000
    defs = {}
    for n in range(0, NSCOPES + 1):
        if opener == "repeat" and n % 3 == 0:
            lines.append(".repeat 1 { nop }")
            words.append(0o240)
            addr += 2
        if n:   # region 0 is the start of the file, before any ordinary label
            lines.append("g%d: nop" % n)
            words.append(0o240)
            addr += 2
        for (reg, name, defined) in ((i, a, a_defined), (j, b, True)):
            if reg == n and not (reg == j and name == b and (i, a) == (j, b) and defined is not True):
                if defined:
                    lines.append("%s: nop" % name)
                    defs[(n, name)] = addr
                    words.append(0o240)
                    addr += 2
                lines.append("br %s" % name)
                words.append(("br", n, name, addr))
                addr += 2
    return lines, words, defs


def bound(tier):
    return "<= %d placed events over %d files (link) and 2 files (include), all orders; local families <= 5 events" % ((5, 3) if tier == "thorough" else (4, 2))


def file_seqs(max_len):
    out = [()]
    for n in range(1, max_len + 1):
        out += list(itertools.product(EV, repeat=n))
    return out


def cases(tier):
    total = 5 if tier == "thorough" else 4
    # partition by the first file's sequence
    for s1 in file_seqs(min(3, total)):
        yield {"k": "link", "s1": list(s1), "total": total, "files": 3 if tier == "thorough" else 2}
    for s1 in file_seqs(3):
        yield {"k": "include", "s1": list(s1), "total": 4}
    yield {"k": "local"}
    yield {"k": "local-include"}
    for i in range(0, NSCOPES + 1):
        yield {"k": "scopes", "i": i}


def admissible(seq):
    """configurations the property statement leaves open are not generated"""
    defs = sum(1 for e in seq if e in "DLEG")
    priv = sum(1 for e in seq if e in "DL")
    exp_def = sum(1 for e in seq if e in "EG")
    if "X" in seq and priv == 0:
        return False        # .extern x for a name the file never defines privately
    if seq.count("X") > 1 or seq.count("A") > 1 or seq.count("R") > 1:
        return False
    # (one definition exported through two means - 'x::' plus '.extern x' or '.extern all' - is still one definition: generated)
    if defs > 2:
        return False
    return True


def resolve(files):
    """reference resolver. files: list of event sequences. returns ('error', why) or list per file of the binding (file index, event index) used by each U"""
    exporters = []
    for fi, seq in enumerate(files):
        defs = [i for i, e in enumerate(seq) if e in "DLEG"]
        if len(defs) > 1:
            return ("error", "two definitions of x in file %d" % fi)
        if defs and (seq[defs[0]] in "EG" or "X" in seq or "A" in seq):
            exporters.append((fi, defs[0]))
    if len(exporters) > 1:
        return ("error", "x exported by two files")
    binds = []
    for fi, seq in enumerate(files):
        defs = [i for i, e in enumerate(seq) if e in "DLEG"]
        b = []
        for i, e in enumerate(seq):
            if e == "U":
                if defs:
                    b.append((fi, defs[0]))
                elif exporters:
                    b.append(exporters[0])
                else:
                    return ("error", "x not visible in file %d" % fi)
        binds.append(b)
    return binds


def render(files, form, reg, include=False, inc_pos=None):
    """returns (list of (name, text), tree, expected image or None when an error is expected).  With include, file 1 is included
    by file 0 after inc_pos of file 0's events (default: after all of them); its bytes stand where the directive stands"""
    res = resolve(files)
    base = BASE[reg]
    use_size = 4 if form == "eager" else 2
    st = {"addr": base}
    label_addr = {}
    use_slots = []
    texts = [None] * len(files)
    if inc_pos is None:
        inc_pos = len(files[0])

    def emit_file(fi):
        lines = []
        texts[fi] = lines
        if fi == 0 and reg == "first":
            lines.append(".link %o" % base)
        # a private bystander with the same name in every file (distinct names when some file says '.extern all',
        # which would legitimately export it from each of them)
        yname = "y" if not any("A" in f for f in files) else "y%d" % fi
        lines.append("%s = %o" % (yname, 0o100 + fi))
        for i, e in enumerate(list(files[fi]) + [None]):
            if include and fi == 0 and i == inc_pos and inc_pos < len(files[0]):
                lines.append(".include \"f1.mac\"")
                emit_file(1)
            if e is None:
                break
            if e == "D":
                lines.append("x = %o" % (0o11 * (fi + 1)))
            elif e == "E":
                lines.append("x == %o" % (0o11 * (fi + 1)))
            elif e == "L":
                lines.append("x:")
                label_addr[(fi, i)] = st["addr"]
            elif e == "G":
                lines.append("x::")
                label_addr[(fi, i)] = st["addr"]
            elif e == "X":
                lines.append(".extern x")
            elif e == "A":
                lines.append(".extern all")
            elif e == "R":
                lines.append(".repeat 2 { nop }")
                use_slots.append(("raw", b"\xa0\x00\xa0\x00"))
                st["addr"] += 4
            elif e == "U":
                lines.append("mov #x, r0" if form == "eager" else ".word x")
                use_slots.append((fi, st["addr"]))
                st["addr"] += use_size
        lines.append(".word " + yname)
        use_slots.append(("y", fi, st["addr"]))
        st["addr"] += 2
        if include and fi == 0 and inc_pos >= len(files[0]):
            lines.append(".include \"f1.mac\"")
            emit_file(1)
        if fi == len(files) - 1 and reg == "last" and not include:
            lines.append(".link %o" % base)

    order = list(range(len(files)))
    if include:
        emit_file(0)
    else:
        for fi in order:
            emit_file(fi)
    if include and reg == "last":
        texts[0].append(".link %o" % base)
    if include:
        # file 1's bytes follow file 0's; the layout above already assumed that order
        named = [("f0.mac", "\n".join(texts[0]) + "\n")]
        tree = {"f1.mac": "\n".join(texts[1]) + "\n"}
    else:
        named = [("f%d.mac" % fi, "\n".join(texts[fi]) + "\n") for fi in order]
        tree = None
    if res[0] == "error":
        return named, tree, None, res[1]
    image = b""
    per_file_idx = [0] * len(files)
    for slot in use_slots:
        if slot[0] == "raw":
            image += slot[1]
            continue
        if slot[0] == "y":
            v = 0o100 + slot[1]
            image += bytes([v & 255, v >> 8])
            continue
        fi, _a = slot
        bf, bi = res[fi][per_file_idx[fi]]
        per_file_idx[fi] += 1
        ev = files[bf][bi]
        v = (0o11 * (bf + 1)) if ev in "DE" else label_addr[(bf, bi)]
        w = bytes([v & 255, (v >> 8) & 255])
        image += (b"\xc0\x15" + w) if form == "eager" else w
    return named, tree, image, None


def run_config(files, r, include=False, inc_pos=None):
    if not any("U" in f for f in files) or not any(e in "DLEG" for f in files for e in f):
        return
    if not all(admissible(f) for f in files):
        return
    if include and inc_pos is None:
        # the directive after all events of the including file (the usual place) and at every earlier position
        for pos in range(len(files[0]), -1, -1):
            run_config(files, r, True, pos)
        return
    for form in ("eager", "lazy"):
        for reg in REG:
            named, tree, image, why = render(files, form, reg, include, inc_pos)
            out = driver.assemble(named, tree=tree)
            r.states += 1
            r.trans += sum(len(f) for f in files)
            key = (tuple(tuple(f) for f in files), form, reg, include, inc_pos)
            case = {"k": "config", "files": [list(f) for f in files], "form": form, "reg": reg, "include": include, "inc_pos": inc_pos}
            fam = mech(files, form)
            if image is None:
                r.ran(out.cls(), key=key)
                if out.status != "fail":
                    sig = "accepted" if out.status == "ok" else out.cls()
                    r.violation("must-fail:%s:%s" % (sig, fam), "%s: must be an error, never a silent binding" % why, case, "fail", out.brief())
            else:
                good = out.status == "ok" and out.code == image and out.base == BASE[reg]
                r.ran("ok" if good else out.cls(), key=key)
                if not good:
                    if out.status == "ok":
                        sig = "wrong-binding"
                    elif out.status == "fail":
                        sig = "rejected:" + ",".join(sorted(set(out.error_kinds())))
                    else:
                        sig = out.cls()
                    r.violation("%s:%s" % (sig, fam), "reference resolver expects image %s" % image.hex(), case, image.hex(), out.brief())


def mech(files, form):
    """mechanism class for signatures: where the (first) use stands relative to its own file's definition, and whether a foreign export exists"""
    tags = [form]
    for fi, f in enumerate(files):
        if "U" in f:
            defs = [i for i, e in enumerate(f) if e in "DLEG"]
            u = f.index("U")
            if defs:
                tags.append("use-before-own-def" if u < defs[0] else "use-after-own-def")
            else:
                tags.append("use-without-own-def")
            break
    if sum(1 for f in files if any(e in "EGXA" for e in f)) > 0:
        tags.append("exported")
    return "+".join(tags)


def check(case, r, tier):
    k = case["k"]
    if k == "config":
        run_config([tuple(f) for f in case["files"]], r, case.get("include", False), case.get("inc_pos"))
        return
    if k == "local-prog":
        run_local(case["events"], case["use"], case.get("inc"), r)
        return
    if k in ("link", "include"):
        s1 = tuple(case["s1"])
        rest = case["total"] - len(s1)
        if k == "include":
            for s2 in file_seqs(min(3, rest)):
                run_config([s1, s2], r, include=True)
            return
        nfiles = case["files"]
        for s2 in file_seqs(min(3, rest)):
            run_config([s1, s2], r)
            if nfiles == 3:
                for s3 in file_seqs(min(2, rest - len(s2))):
                    if s3:
                        run_config([s1, s2, s3], r)
        return
    if k in ("scopes", "scopes-prog"):
        i = case["i"]
        combos = [(case["j"], case["a"], case["b"], case["adef"], case["opener"])] if k == "scopes-prog" else [
            (j, a, b, adef, opener) for j in range(i + 1, NSCOPES + 1) for a in LOCAL_NAMES for b in LOCAL_NAMES for adef in (True, False) for opener in ("label", "repeat")
            if not (opener == "repeat" and (a, b) not in (("12", "2"), ("2", "12"), ("21$", "1$"), ("1", "1")))]
        for j, a, b, adef, opener in combos:
            lines, words, defs = scopes_program(i, a, j, b, adef, opener)
            text = "\n".join(lines) + "\n"
            out = driver.assemble([("l.mac", text)])
            r.states += 1
            r.trans += 1
            key = ("scopes", i, j, a, b, adef, opener)
            c = {"k": "scopes-prog", "i": i, "j": j, "a": a, "b": b, "adef": adef, "opener": opener}
            if not adef:
                # region i uses a name that only another region defines (or nobody): never a silent binding
                r.ran(out.cls(), key=key)
                if out.status != "fail":
                    r.violation("local-must-fail:%s:many-regions" % ("accepted" if out.status == "ok" else out.cls()),
                                "region %d uses local %s that it does not define (region %d defines %s)" % (i, a, j, b), c, "fail", out.brief())
                continue
            img = bytearray()
            for w in words:
                if isinstance(w, tuple):
                    _t, n, name, at = w
                    d = defs[(n, name)] - (at + 2)
                    w = 0o400 | ((d // 2) & 0xFF)
                img += bytes([w & 255, w >> 8])
            good = out.status == "ok" and out.code == bytes(img)
            r.ran("ok" if good else out.cls(), key=key)
            if not good:
                r.violation("local-binding:%s:many-regions" % (out.cls() if out.status != "ok" else "wrong"),
                            "locals %s (region %d) and %s (region %d) must bind inside their own regions" % (a, i, b, j), c, bytes(img).hex(), out.brief())
        return
    if k == "local":
        for n in range(1, 6):
            for ev in itertools.product("duSrG" if n <= 4 else "duSG", repeat=n):
                if "u" not in ev and "r" not in ev:
                    continue
                for use in (".word 1$", "br 1"):
                    run_local(list(ev), use, None, r)
        return
    if k == "local-include":
        for n in range(1, 4):
            for ev in itertools.product("duSIG", repeat=n):
                if "I" not in ev or ev.count("I") > 1:
                    continue
                for inc in itertools.product("du", repeat=2):
                    run_local(list(ev), ".word 1$", list(inc), r)
                for inc in (["u"], ["d"], ["d", "u"], ["u", "d"], ["d", "d"]):
                    run_local(list(ev), ".word 1$", inc, r)
        return


def run_local(events, use, inc, r):
    """events over d (define local), u (use), S (ordinary label), G (exported label 'name::'), I (include of file with events inc)"""
    name = "1$" if use.startswith(".word") else "1"
    base = 0o1000

    def layout(evs, addr, prefix):
        lines, regions, cur = [], [], {"defs": [], "uses": []}
        n_s = 0
        pos = []
        for e in evs:
            if e == "d":
                lines.append("%s:" % name)
                cur["defs"].append(addr)
            elif e == "u":
                lines.append(use)
                cur["uses"].append(addr)
                pos.append((addr, cur))
                addr += 2
            elif e == "r":
                # two uses from inside a '.repeat' body: the body belongs to the region it stands in
                lines.append(".repeat 2 { %s }" % use)
                for _ in range(2):
                    cur["uses"].append(addr)
                    pos.append((addr, cur))
                    addr += 2
            elif e in "SG":
                # an exported label 'name::' is an ordinary label as well: it closes the region just like 'name:'
                n_s += 1
                lines.append("%ss%d:%s" % (prefix, n_s, ":" if e == "G" else ""))
                regions.append(cur)
                cur = {"defs": [], "uses": []}
            elif e == "I":
                lines.append(".include \"li.mac\"")
                sub_lines, sub_regions, addr, sub_pos = layout(inc, addr, "i")
                tree["li.mac"] = "\n".join(sub_lines) + "\n"
                inc_regions.extend(sub_regions)
                inc_pos.extend(sub_pos)
        regions.append(cur)
        return lines, regions, addr, pos
    tree, inc_regions, inc_pos = {}, [], []
    lines, regions, end, pos = layout(events, base, "m")
    allregions = regions + inc_regions
    error = None
    for reg in allregions:
        if len(reg["defs"]) > 1:
            error = "two definitions of the local label in one region"
        if reg["uses"] and not reg["defs"]:
            error = error or "local label used in a region that does not define it"
    image = None
    if not error:
        words = {}
        for addr, reg in pos + inc_pos:
            t = reg["defs"][0]
            if use.startswith(".word"):
                words[addr] = t
            else:
                d = t - (addr + 2)
                if d % 2 or not -256 <= d <= 254:
                    error = "unreachable"
                words[addr] = 0o400 | ((d // 2) & 0xFF)
        if not error:
            image = b"".join(bytes([words[a] & 255, (words[a] >> 8) & 255]) for a in sorted(words))
    text = "\n".join(lines) + "\n"
    out = driver.assemble([("l.mac", text)], tree=tree or None)
    r.states += 1
    r.trans += len(events)
    key = ("local", tuple(events), use, tuple(inc) if inc else None)
    case = {"k": "local-prog", "events": events, "use": use, "inc": inc}
    if image is None:
        r.ran(out.cls(), key=key)
        if out.status != "fail":
            r.violation("local-must-fail:%s" % ("accepted" if out.status == "ok" else out.cls()), "%s: must be an error" % error, case, "fail", out.brief())
    else:
        good = out.status == "ok" and out.code == image
        r.ran("ok" if good else out.cls(), key=key)
        if not good:
            r.violation("local-binding:%s" % (out.cls() if out.status != "ok" else "wrong"), "local label bound outside its region or not at all", case, image.hex(), out.brief())
