"""C16 Structural directives preserve meaning — E2, differential (program vs its unrolled / concatenated / inlined equivalent)."""
import itertools
from .. import driver

ID = "C16"
LEVEL = "model_checking"
EXHAUSTIVE = True
CHUNK = 1
CASE_TIMEOUT = 900
RULE = ("differential exploration, every pair run as two fresh assemblies of the real code: (1) '.repeat n { body }' vs the body written n "
        "times for all body sequences up to the depth bound over a 43-statement body alphabet that contains every operand form and "
        "expression shape ('.' under / % * >> << &, indexed operands with symbolic and compound offsets, PC-relative and immediate '.', "
        "branches to .+-n, .even/.odd/.align, .blkb and .repeat whose size or count depends on '.', nested repeats to depth 3), n in "
        "0..4 and 8 (40 for single statements), count written as a constant and as a later-defined symbol, loop start at even and odd "
        "addresses, base settled first / last / defaulted; (2) linking every ordered pair and triple of a 6-file alphabet vs the "
        "concatenated text; (3) insert_file of every length in the bound vs the same bytes as .byte data, at even and odd addresses; "
        "(4) .end at every position of every file of 1-3 file links and inside an include vs the text with the rest of that file removed; "
        "(5) .once files included 1-3 times directly and through another include vs a single inclusion, each such project assembled three times by one process under the same path names. Oracle: identical status, base, "
        "bytes (and one absolute anchor per family). state = one program pair; transition = one body statement / file / inclusion added")
ASSUMPTIONS = ["differential oracle: both sides are produced by the implementation; each family carries absolute anchors computed by hand",
               "labels and assignments are not allowed inside .repeat and are not generated there"]

BODY = [
    "nop", "mov #1, r1", "mov @#2, @#4", ".byte 1", ".byte 1, 2, 3", ".ascii \"ab\"", ".blkb 3",
    ".even", ".odd", ".align 4",
    ".word .", ".word ./2", ".word .%7", ".word <.*.>&177777", ".word .>>1", ".word .<<1&177777", ".word <.-bse>/2", ".word .+x", ".word x*2",
    ".byte .&377", ".rad50 /AB/< <.-bse>&7 >", ".ascii <.&177>/z/", ".asciz /q/<<.-bse>&77>",
    "mov 2+x(r0), r1", "mov -x(r0), r1", "clr @2+x(r0)", "mov x(r2), 2+x(r3)", "mov #., r1", "mov ., r1", "jmp @#.+2", "mov #<.-bse>/2, r1",
    "br .+4", "br .-2", "sob r1, .", "inc bse", "mov @bse, r0", "br bse", "sob r2, bse", "jsr pc, bse", "mov #bse, bse",
    ".blkb .&3", ".repeat .&3 { .byte 5 }", ".repeat 2 { .byte 1\n .even }", ".repeat 2 { .repeat 2 { .word . } }",
    # a local label of the surrounding region, referred to from the body
    "br 7$", "mov #7$, r0", "sob r3, 7$", ".repeat 2 { inc 7$ }",
]
NS = [0, 1, 2, 3, 4, 8]   # quick: bodies of two statements use n in 0..3 and alternate start parity / count spelling
REG = ["first", "last", "none"]
FILES6 = [
    "f0a:: nop\n.byte 1\n",
    ".even\nf1a:: .word ., f0a\n",
    "f2a:: .blkb f2n\nf2n = 3\n",
    ".ascii \"abc\"\nf3a:: br f3a\n.even\n",
    ".even\nf4a:: .repeat 2 { .byte 1\n.even }\njmp f1a\n",
    ".even\n1: sob r1, 1\nf5a:: mov f2a, r0\n",
]


ONCE_TREE = {"once.mac": ".once\n.byte 21\n.byte 22\n", "plain.mac": ".byte 31\n", "via.mac": ".byte 41\n.include \"once.mac\"\n.byte 42\n",
             "sub/deep.mac": ".byte 51\n.include \"../once.mac\"\n.byte 52\n"}


def bound(tier):
    return "repeat bodies of <= %d statements (47-statement alphabet) x n in %s x 2 count spellings x 2 start parities x 3 link regimes; 258 file tuples; insert lengths %s; .end/.once families complete" % (
        3 if tier == "thorough" else 2, NS, "0..300" if tier == "thorough" else "0..40,255,256,300")


def cases(tier):
    depth = 3 if tier == "thorough" else 2
    for d in range(1, depth + 1):
        for first in range(len(BODY)):
            if d == 3:
                for second in range(len(BODY)):
                    yield {"k": "repeat", "d": d, "first": [first, second]}
            else:
                yield {"k": "repeat", "d": d, "first": [first]}
    for n in (2, 3):
        for tup in itertools.product(range(6), repeat=n):
            yield {"k": "link", "files": list(tup)}
    lens = list(range(0, 301)) if tier == "thorough" else list(range(0, 41)) + [255, 256, 300]
    for i in range(0, len(lens), 16):
        yield {"k": "insert", "lens": lens[i:i + 16]}
    yield {"k": "end"}
    yield {"k": "once"}
    yield {"k": "insert-dirs"}


def wrap(body_text, reg, odd, defs_first, extra_defs=""):
    pre = (".link 1000\n" if reg == "first" else "")
    pre += ("x = 4\n" + extra_defs if defs_first else "")
    pre += "bse: nop\n7$:\n" + (".byte 7\n" if odd else "")
    # (behind the body another region with a local label of the same name: a body that is carried out late - its count is
    # known only at the end - still belongs to the region it stands in)
    post = ".byte 77\n.even\ntail: nop\n7$: nop\n" + ("" if defs_first else "x = 4\n" + extra_defs) + (".link 1000\n" if reg == "last" else "")
    return pre + body_text + "\n" + post


def compare(r, a_files, b_files, tree, key, case, sigbase, what):
    oa = driver.assemble(a_files, tree=tree)
    ob = driver.assemble(b_files, tree=tree)
    r.states += 1
    same = (oa.status, oa.base, oa.code) == (ob.status, ob.base, ob.code)
    if oa.status == "ok" and same:
        r.ran("ok", key=key)
        r.ran("ok", key=None)
    else:
        r.ran(oa.cls(), key=key if same else None, nontrivial=oa.status == "ok")
        r.ran(ob.cls(), key=None)
    if not same or oa.status in ("crash", "hang", "silent-fail"):
        if oa.status in ("crash", "hang", "silent-fail") or ob.status in ("crash", "hang", "silent-fail"):
            bad = oa if oa.status in ("crash", "hang", "silent-fail") else ob
            sig = "%s:%s" % (sigbase, bad.cls())
        else:
            sig = "%s:%s-vs-%s" % (sigbase, oa.status, ob.status)
        r.violation(sig, what, case, expected=ob.brief(), observed=oa.brief())
    return oa, ob


def lazy_weight(body_idx):
    """number of statements per iteration whose size depends on the address and is not announced in advance: with an
    unsettled link base every such statement doubles the assembler's work (DESIGN.md section 9, exponential re-evaluation),
    so the lazy regimes are bounded to weight x n <= 10 (the settled regime is explored for every n)"""
    wgt = 0
    for i in body_idx:
        t = BODY[i]
        wgt += t.count(".even") * (2 if t.startswith(".repeat 2") else 1) + t.count(".odd") + t.count(".align") + (1 if ".&3" in t else 0)
        wgt += 1 if (t.startswith((".ascii <", ".asciz /q/<", ".rad50 /AB/<"))) else 0   # unsized and address-dependent as well
    return wgt


def mech(body_idx):
    """names the mechanism class of a repeat body (used in violation signatures so that a different mechanism is a different finding)"""
    tags = set()
    for i in body_idx:
        t = BODY[i]
        if t.startswith(".repeat"):
            tags.add("nested")
        if "(r" in t and ("+x" in t or "-x" in t):
            tags.add("compound-index")
        if any(op in t for op in ("./", ".%", ".>>", ".<<", ">/2", ".*.")):
            tags.add("nonlinear-dot")
        elif "." in t.replace(".word", "").replace(".byte", "").replace(".blkb", "").replace(".even", "").replace(".odd", "").replace(".align", "").replace(".ascii", "").replace(".repeat", ""):
            tags.add("dot")
    return "+".join(sorted(tags)) or "plain"


def check(case, r, tier):
    k = case["k"]
    if k == "pair":
        compare(r, [tuple(x) for x in case["a"]], [tuple(x) for x in case["b"]], case.get("tree"), None, case, case["sigbase"], case.get("what", ""))
        return
    if k == "repeat":
        d, first = case["d"], case["first"]
        for rest in itertools.product(range(len(BODY)), repeat=d - len(first)):
            idx = first + list(rest)
            body = "\n".join(BODY[i] for i in idx)
            thorough = tier == "thorough"
            ns = (NS + [40]) if d == 1 else ((NS if thorough else [0, 1, 2, 3]) if d == 2 else [2, 3])
            for n in ns:
                unrolled = "\n".join([body] * n)
                for reg in REG:
                    if reg != "first" and lazy_weight(idx) * n > 64:   # (was 10 before the repair of the exponential re-evaluation, section 13 #52)
                        r.extra["lazy_regime_cases_skipped_resource_guard"] += 1
                        continue
                    for odd in ((False, True) if (d == 1 or (thorough and d == 2)) else ((n + len(idx) + idx[-1]) % 2 == 1,)):
                        for sym in ((False, True) if (d == 1 or (thorough and d == 2)) else ((n + idx[0]) % 2 == 1,)):
                            for defs_first in ((False, True) if (d == 1 and not sym) else (False,)):
                                cnt = "cnt" if sym else "%o" % n
                                a = wrap(".repeat %s {\n%s\n}" % (cnt, body), reg, odd, defs_first, "cnt = %o\n" % n if sym else "")
                                b = wrap(unrolled, reg, odd, defs_first, "cnt = %o\n" % n if sym else "")
                                r.trans += 1
                                c = {"k": "pair", "a": [["r.mac", a]], "b": [["r.mac", b]], "sigbase": "repeat:" + mech(idx),
                                     "what": ".repeat %d of body %r differs from the body written %d times" % (n, body, n)}
                                compare(r, [("r.mac", a)], [("r.mac", b)], None, ("repeat", tuple(idx), n, reg, odd, sym, defs_first), c, c["sigbase"], c["what"])
        return
    if k == "link":
        tup = case["files"]
        for reg in ("first", "none"):
            texts = [FILES6[f] for f in tup]
            if len(set(tup)) != len(tup):
                continue  # the same file twice would share its private names: outside the property's premise
            pre = ".link 2000\n" if reg == "first" else ""
            a = [("f%d.mac" % i, (pre if i == 0 else "") + t) for i, t in enumerate(texts)]
            b = [("all.mac", pre + "".join(texts))]
            r.trans += len(tup)
            c = {"k": "pair", "a": [list(x) for x in a], "b": [list(x) for x in b], "sigbase": "link", "what": "linking files differs from assembling their concatenation"}
            compare(r, a, b, None, ("link", tuple(tup), reg), c, "link", c["what"])
        return
    if k == "insert":
        for L in case["lens"]:
            data = bytes((i * 7 + 3) & 255 for i in range(L))
            as_bytes = "\n".join(".byte " + ", ".join("%o" % x for x in data[i:i + 8]) for i in range(0, L, 8))
            for odd in (False, True):
                for reg in ("first", "last", "none"):
                    pre = (".link 1000\n" if reg == "first" else "") + "s0: nop\n" + (".byte 7\n" if odd else "")
                    post = "\ns1: .byte 77\n.even\n.word s0, s1\n" + (".link 1000\n" if reg == "last" else "")
                    a = pre + "insert_file \"blob.bin\"" + post
                    b = pre + as_bytes + post
                    r.trans += 1
                    c = {"k": "pair", "a": [["i.mac", a]], "b": [["i.mac", b]], "tree": {"blob.bin": {"hex": data.hex()}}, "sigbase": "insert_file",
                         "what": "insert_file of %d bytes differs from the same bytes as .byte data" % L}
                    oa, ob = compare(r, [("i.mac", a)], [("i.mac", b)], {"blob.bin": data}, ("insert", L, odd, reg), c, "insert_file", c["what"])
                    # absolute anchor
                    want = b"\xa0\x00" + (b"\x07" if odd else b"") + data + b"\x3f"
                    want += b"\x00" * (len(want) % 2)
                    s1 = 0o1000 + 2 + (1 if odd else 0) + L
                    want += bytes([0, 2, s1 & 255, s1 >> 8])
                    if oa.status == "ok" and oa.code != want:
                        r.violation("insert_file:anchor", "image with an inserted file differs from the hand-computed layout", c, want.hex(), oa.brief())
        return
    if k == "end":
        stm = [[".byte 1%d" % j for j in range(3)], [".byte 2%d" % j for j in range(3)], [".byte 3%d" % j for j in range(3)]]
        for nfiles in (1, 2, 3):
            for f in range(nfiles):
                for p in range(4):
                    for spelling, junk in ((".end", ""), (".END", ""), ("end", ""), (".end", "\n%%% junk that is not assembly $$$\n(((\n"), (".end", "\n.byte 77\nundefined_thing\n")):
                        a, b = [], []
                        for i in range(nfiles):
                            lines = list(stm[i])
                            if i == f:
                                a.append(("e%d.mac" % i, "\n".join(lines[:p] + [spelling] + lines[p:]) + junk + "\n"))
                                b.append(("e%d.mac" % i, "\n".join(lines[:p]) + "\n"))
                            else:
                                a.append(("e%d.mac" % i, "\n".join(lines) + "\n"))
                                b.append(("e%d.mac" % i, "\n".join(lines) + "\n"))
                        r.trans += 1
                        c = {"k": "pair", "a": [list(x) for x in a], "b": [list(x) for x in b], "sigbase": "end", "what": ".end does not discard exactly the rest of its own file"}
                        oa, ob = compare(r, a, b, None, ("end", nfiles, f, p, spelling, junk), c, "end", c["what"])
                        want = b"".join(bytes([int("%d%d" % (i + 1, j), 8)]) for i in range(nfiles) for j in range(3) if not (i == f and j >= p))
                        if oa.status == "ok" and oa.code != want:
                            r.violation("end:anchor", ".end: image differs from the hand-computed one", c, want.hex(), oa.brief())
        # inside an include: the rest of the included file only
        for p in range(3):
            inc = "\n".join([".byte 5%d" % j for j in range(p)] + [".end"] + [".byte 5%d" % j for j in range(p, 2)]) + "\n"
            inc_b = "\n".join([".byte 5%d" % j for j in range(p)]) + "\n"
            main = ".byte 1\n.include \"inc.mac\"\n.byte 2\n"
            c = {"k": "pair", "a": [["m.mac", main]], "b": [["m.mac", main]], "sigbase": "end-in-include", "what": ".end inside an included file"}
            oa = driver.assemble([("m.mac", main)], tree={"inc.mac": inc})
            ob = driver.assemble([("m.mac", main)], tree={"inc.mac": inc_b})
            want = b"\x01" + bytes(int("5%d" % j, 8) for j in range(p)) + b"\x02"
            r.states += 1
            r.trans += 1
            r.ran(oa.cls(), key=("end-inc", p))
            if (oa.status, oa.code) != (ob.status, ob.code) or oa.code != want:
                r.violation("end-in-include", ".end inside an included file must discard the rest of that file only", dict(c, inc=inc), want.hex(), oa.brief())
        return
    if k == "once":
        once = ".once\n.byte 21\n.byte 22\n"
        plain = ".byte 31\n"
        viaonce = ".byte 41\n.include \"once.mac\"\n.byte 42\n"
        tree = {"once.mac": once, "plain.mac": plain, "via.mac": viaonce, "sub/deep.mac": ".byte 51\n.include \"../once.mac\"\n.byte 52\n"}
        # the same file reached through differently spelled paths is still the same file
        elems = {"O": (".include \"once.mac\"", b"\x11\x12"), "P": (".include \"plain.mac\"", b"\x19"), "V": (".include \"via.mac\"", None), "B": (".byte 7", b"\x07"),
                 "o": (".include \"./once.mac\"", b"\x11\x12"), "q": (".include \"sub/../once.mac\"", b"\x11\x12"), "D": (".include \"sub/deep.mac\"", None)}
        shared_root = driver.prepare_tree(tree)
        for n in (1, 2, 3, 4):
            for combo in itertools.product("OPVBoqD" if n <= 3 else "OPVB", repeat=n):
                text = "\n".join(elems[e][0] for e in combo) + "\n"
                seen = False
                want = b""
                for e in combo:
                    if e in "Ooq":
                        if not seen:
                            want += b"\x11\x12"
                        seen = True
                    elif e == "V":
                        want += b"\x21" + (b"" if seen else b"\x11\x12") + b"\x22"
                        seen = True
                    elif e == "D":
                        want += b"\x29" + (b"" if seen else b"\x11\x12") + b"\x2a"
                        seen = True
                    else:
                        want += elems[e][1]
                out = driver.assemble([("m.mac", text)], tree=tree)
                r.states += 1
                r.trans += n
                good = out.status == "ok" and out.code == want
                r.ran(out.cls() if not good else "ok", key=("once", combo))
                if good and n <= 3:
                    # the same project assembled again by the same process (the same path names): '.once' counts per assembly
                    for again in (1, 2):
                        out = driver.assemble([("m.mac", text)], root=shared_root)
                        r.states += 1
                        good = out.status == "ok" and out.code == want
                        r.ran(out.cls() if not good else "ok", key=("once-again", combo, again))
                        if not good:
                            r.violation("once:assembled-again", ".once: the same project assembled again by the same process gives another result (%s, assembly %d)" % ("".join(combo), again + 1),
                                        {"k": "once-prog", "text": text, "again": 3, "want": want.hex()}, want.hex(), out.brief())
                            good = True
                            break
                if not good:
                    r.violation("once", ".once: a file must contribute only the first time it is included (%s)" % "".join(combo),
                                {"k": "once-prog", "text": text}, want.hex(), out.brief())
                if n > 2:
                    continue
                # the guarded file is also one of the linked files: it still contributes once per assembly
                want_after = b""
                seen2 = True
                for e in combo:
                    if e in "Ooq":
                        pass
                    elif e == "V":
                        want_after += b"\x21\x22"
                    elif e == "D":
                        want_after += b"\x29\x2a"
                    else:
                        want_after += elems[e][1]
                for tag, files, w in (("linked-before", [("once.mac", once), ("m.mac", text)], b"\x11\x12" + want_after),
                                      ("linked-after", [("m.mac", text), ("once.mac", once)], want + (b"" if seen else b"\x11\x12")),
                                      ("linked-twice", [("once.mac", once), ("m.mac", text), ("once.mac", once)], b"\x11\x12" + want_after)):
                    out = driver.assemble(files, tree=tree)
                    r.states += 1
                    good = out.status == "ok" and out.code == w
                    r.ran(out.cls() if not good else "ok", key=("once", combo, tag))
                    if not good:
                        r.violation("once:" + tag, ".once: a guarded file that is also a linked file contributes once per assembly (%s, %s)" % ("".join(combo), tag),
                                    {"k": "once-prog", "files": [list(f) for f in files], "want": w.hex()}, w.hex(), out.brief())
        import shutil
        shutil.rmtree(shared_root, ignore_errors=True)
        return
    if k == "once-prog" and case.get("again"):
        import shutil
        root = driver.prepare_tree(ONCE_TREE)
        try:
            for _ in range(case["again"]):
                out = driver.assemble([("m.mac", case["text"])], root=root)
                r.ran(out.cls(), key=None)
                if not (out.status == "ok" and out.code == bytes.fromhex(case["want"])):
                    r.violation("once:assembled-again:replay", "recorded program, assembled %d times by one process" % case["again"], case, case["want"], out.brief())
                    break
        finally:
            shutil.rmtree(root, ignore_errors=True)
        return
    if k == "once-prog":
        out = driver.assemble([tuple(f) for f in case["files"]] if "files" in case else [("m.mac", case["text"])], tree=case.get("tree") or ONCE_TREE)
        r.ran(out.cls(), key=None)
        if "want" in case and not (out.status == "ok" and out.code == bytes.fromhex(case["want"])):
            r.violation("once:replay", "recorded program", case, case["want"], out.brief())
        return
    if k == "insert-dirs":
        # the path of an inserted file is relative to the file that holds the directive: the same spelling in two directories names
        # two files (and 'insert_file' is the same bytes written as .byte data)
        A, Bb, Cc = bytes([1, 2, 3]), bytes([0o21, 0o22, 0o23, 0o24, 0o25]), bytes([0o31])
        tree = {"t.bin": A, "sub/t.bin": Bb, "sub/deep/t.bin": Cc, "sub/inc.mac": "insert_file \"t.bin\"\n", "sub/deep/inc.mac": "insert_file \"t.bin\"\n",
                "sub/up.mac": "insert_file \"../t.bin\"\n", "sub/both.mac": "insert_file \"t.bin\"\n.include \"deep/inc.mac\"\ninsert_file \"t.bin\"\n"}
        elems = {"m": ("insert_file \"t.bin\"", A), "s": (".include \"sub/inc.mac\"", Bb), "d": (".include \"sub/deep/inc.mac\"", Cc), "u": (".include \"sub/up.mac\"", A),
                 "b": (".include \"sub/both.mac\"", Bb + Cc + Bb), "x": ("insert_file \"sub/t.bin\"", Bb), "r": (".repeat 2 { insert_file \"t.bin\" }", A + A)}
        for n in (1, 2, 3):
            for combo in itertools.product("msdubxr", repeat=n):
                text = "\n".join(elems[e][0] for e in combo) + "\n"
                want = b"".join(elems[e][1] for e in combo)
                out = driver.assemble([("m.mac", text)], tree=tree)
                r.states += 1
                r.trans += n
                good = out.status == "ok" and out.code == want
                r.ran("ok" if good else out.cls(), key=("insert-dirs", combo))
                if not good:
                    r.violation("insert-file:relative-to-its-own-file", "insert_file \"t.bin\" in files of different directories (%s)" % "".join(combo),
                                {"k": "once-prog", "text": text, "tree": {k2: (v if isinstance(v, str) else None) for k2, v in tree.items() if isinstance(v, str)}, "want": want.hex()}, want.hex(), out.brief())
        # two linked files in different directories
        for order in ((("m.mac", "insert_file \"t.bin\"\n"), ("sub/n.mac", "insert_file \"t.bin\"\n")), (("sub/n.mac", "insert_file \"t.bin\"\n"), ("m.mac", "insert_file \"t.bin\"\n"))):
            want = b"".join(A if f[0] == "m.mac" else Bb for f in order)
            out = driver.assemble(list(order), tree=tree)
            good = out.status == "ok" and out.code == want
            r.ran("ok" if good else out.cls(), key=("insert-dirs-linked", order[0][0]))
            if not good:
                r.violation("insert-file:relative-to-its-own-file", "insert_file \"t.bin\" in two linked files of different directories", {"k": "insert-dirs"}, want.hex(), out.brief())
        return
