"""C03 Symbol values do not depend on definition order — E2 deviation-bounded, differential + anchor."""
import os
import re
import itertools
from .. import driver

ID = "C03"
LEVEL = "model_checking"
EXHAUSTIVE = True
CHUNK = 1
CASE_TIMEOUT = 900
RULE = ("deviation-bounded exploration around base programs: 11 definition sets (two of them erroneous: undefined name, division by zero) (chain, fan-in, fan-out, diamonds, label-valued, "
        "left-multiplied, mixed) x uses in 20 consumer positions (multi-chunk .rad50 and .ascii with what stands behind them; .word .byte immediate index absolute relative branch .blkb .repeat "
        ".align '. =' skip <n> %n .dword link-expression) x 2-3 link regimes; for each base program every permutation of its "
        "definitions, every single definition moved to every top-level position (deviation 1) and, in thorough, every pair moved "
        "(deviation 2); alias/additive chains of depth 1..300 and non-linear chains of depth 1..30 in forward, backward and use-first "
        "order; 4 definition sets x 20 uses again while another name space (a file linked before, linked after, or a header included on "
        "top) exports the same names with other values (the file's own definitions take precedence wherever they stand); every top-level "
        "constant definition of the 21 practice programs moved to the top and to the bottom. All variants of a "
        "base program must have the same status, base, bytes and error kinds, and a trailing '.word a,b,c,d' is anchored to values "
        "computed independently. state = one placement of the definitions; transition = moving one definition; non-trivial = distinct "
        "(base program, placement) that assembles")
ASSUMPTIONS = ["definitions whose right-hand side mentions '.' or a local label are position-dependent by meaning and are not moved",
               "order and positions of diagnostics are not compared"]
PRACTICE = os.path.join(driver.REPO, "tests", "practice")

# definition sets: (name, assembler text of the right-hand side, the same value in python); lbl/lbe are label addresses
DSETS = {
    "chain": [("a", "5", lambda e: 5), ("b", "a + 1", lambda e: e["a"] + 1), ("c", "b * 2", lambda e: e["b"] * 2), ("d", "c / 2 + a", lambda e: e["c"] // 2 + e["a"])],
    "fanin": [("a", "3", lambda e: 3), ("b", "4", lambda e: 4), ("c", "a + b", lambda e: e["a"] + e["b"]), ("d", "c << 1", lambda e: e["c"] * 2)],
    "fanout": [("a", "6", lambda e: 6), ("b", "a * 2", lambda e: e["a"] * 2), ("c", "a + 1", lambda e: e["a"] + 1), ("d", "<a & 3> + 2", lambda e: (e["a"] & 3) + 2)],
    "diamond": [("a", "2", lambda e: 2), ("b", "a + 1", lambda e: e["a"] + 1), ("c", "a + 5", lambda e: e["a"] + 5), ("d", "c - b", lambda e: e["c"] - e["b"])],
    "diamond2": [("a", "s + 10", lambda e: e["s"] + 8), ("b", "a + 1", lambda e: e["a"] + 1), ("c", "a + 5", lambda e: e["a"] + 5), ("d", "c - b", lambda e: e["c"] - e["b"]),
                 ("s", "4", lambda e: 4)],
    "lmul": [("a", "b + 2", lambda e: e["b"] + 2), ("b", "5", lambda e: 5), ("c", "3 * <a + 1>", lambda e: 3 * (e["a"] + 1)), ("d", "<c - 20> / 2", lambda e: (e["c"] - 16) // 2)],
    "labels": [("a", "lbl + 2", lambda e: e["lbl"] + 2), ("b", "lbe - lbl", lambda e: e["lbe"] - e["lbl"]), ("c", "a - lbl", lambda e: e["a"] - e["lbl"]),
               ("d", "b * 2 + c", lambda e: e["b"] * 2 + e["c"])],
    "labels2": [("a", "lbl", lambda e: e["lbl"]), ("b", "lbl + 100", lambda e: e["lbl"] + 64), ("c", "b - a", lambda e: e["b"] - e["a"]),
                ("d", "<c / 10> - 2", lambda e: e["c"] // 8 - 2)],
    "undef": [("a", "1", lambda e: 1), ("b", "a + 1", lambda e: 2), ("c", "b + zz", lambda e: 0), ("d", "c * 2", lambda e: 0)],
    "divzero": [("a", "0", lambda e: 0), ("b", "a + 1", lambda e: 1), ("c", "b / a", lambda e: 0), ("d", "c + 1", lambda e: 0)],
    "mixed": [("a", "10.", lambda e: 10), ("b", "a _ 1", lambda e: e["a"] << 1), ("c", "b ! 1", lambda e: e["b"] | 1), ("d", "<c ^ 5> % 7", lambda e: (e["c"] ^ 5) % 7)],
}


def dvalues(name, lbl, lbe):
    env = {"lbl": lbl, "lbe": lbe}
    pending = list(DSETS[name])
    while pending:
        for item in list(pending):
            try:
                env[item[0]] = item[2](env)
                pending.remove(item)
            except KeyError:
                pass
    return env


USES = [
    ("word", ".word d"), ("byte", ".byte d & 177"), ("imm", "mov #d, r0"), ("index", "mov d(r1), r0"), ("abs", "clr @#d"),
    ("rel", "clr d"), ("branch", "br .+<d&6>+2"), ("blkb", ".blkb d & 7"), ("repeat", ".repeat d & 3 { nop }"),
    ("align", ".align <d & 3> + 1"), ("skip", ". = .+<d & 7>"), ("angle", ".ascii <d & 177>"), ("regnum", "mov %<d & 7>, r0"),
    ("dword", ".dword d * 2"), ("two", "mov #c, b(r2)"), ("bare", "d"), ("bare-list", "d, c"),
    # a statement of several chunks whose size is announced before its codes are known, and what stands behind it
    ("rad50-chunks", ".rad50 /AB/<d & 37>\n.word ."), ("rad50-chunks3", ".rad50 /A/<d & 7>/B/<c & 7>\n.word ."), ("ascii-chunks", ".ascii /ab/<d & 177>/c/<c & 177>\n.byte . & 177"),
]
REGIMES = ["first", "none", "last"]


def bound(tier):
    return "11 definition sets (two of them erroneous: undefined name, division by zero) x %s use sets x regimes; all permutations + deviation %d; chains to depth 300/30; practice: %s definitions per program moved" % (
        "all pairs of 17" if tier == "thorough" else "17 singles + 17 adjacent pairs", 2 if tier == "thorough" else 1, "all" if tier == "thorough" else "<= 24")


def cases(tier):
    for ds in DSETS:
        for i in range(len(USES)):
            yield {"k": "dag", "ds": ds, "uses": [i]}
        if tier == "thorough":
            for i, j in itertools.combinations(range(len(USES)), 2):
                yield {"k": "dag", "ds": ds, "uses": [i, j]}
        else:
            for i in range(len(USES)):
                yield {"k": "dag", "ds": ds, "uses": [i, (i + 1) % len(USES)]}
    for ds in ("chain", "diamond2", "labels", "fanout"):
        for i in range(len(USES)):
            yield {"k": "dag", "ds": ds, "uses": [i], "shadow": True}
    for kind in ("alias", "add", "nonlin"):
        top = 30 if kind == "nonlin" else 300
        depths = list(range(1, top + 1))
        for i in range(0, len(depths), 20):
            yield {"k": "chain", "kind": kind, "depths": depths[i:i + 20]}
    for name in sorted(os.listdir(PRACTICE)):
        yield {"k": "practice", "name": name}


def program(stmts, reg, uses_skip):
    pre = ".link 2000\n" if reg == "first" else ""
    post = ".link 2000\n" if reg == "last" else ""
    return pre + "lbl: nop\n" + "\n".join(stmts) + "\n.even\n.word a, b, c, d\nlbe: nop\n" + post


# another name space that exports the same names with other values: the file's own definitions take precedence wherever they stand
SHADOW_EXPORTS = "a == 77\nb == a + 1\nc == 123\nd == c * 2 + b\n"
SHADOW_TREE = {"hdr.mac": SHADOW_EXPORTS}


def shadow_files(ctx, text):
    if ctx == "linked-before":
        return [("ctx.mac", SHADOW_EXPORTS), ("p.mac", text)]
    if ctx == "linked-after":
        return [("p.mac", text), ("ctx.mac", SHADOW_EXPORTS)]
    if ctx == "included-top":
        return [("p.mac", ".include \"hdr.mac\"\n" + text)]
    return [("p.mac", text)]


def check_variants(r, base_key, variants, anchor_vals, tree=None, what="", mech="", ctx=None):
    """variants: list of (tag, text). All must agree; the first one is the base order."""
    outs = []
    for tag, text in variants:
        o = driver.assemble(shadow_files(ctx, text), tree=SHADOW_TREE if ctx else tree)
        outs.append((tag, text, o))
        r.states += 1
        r.trans += 1
        r.ran(o.cls(), key=(base_key, tag), nontrivial=o.status == "ok")
    ref = outs[0][2]
    refk = (ref.status, ref.base, ref.code, tuple(ref.error_kinds()))
    for tag, text, o in outs:
        if o.status in ("crash", "hang", "silent-fail"):
            r.violation("placement:%s" % o.cls(), "internal failure for one placement of the definitions %s" % (what,),
                        {"k": "prog", "text": text, "base_text": outs[0][1], "ctx": ctx}, ref.brief(), o.brief())
            break
    for tag, text, o in outs[1:]:
        k2 = (o.status, o.base, o.code, tuple(o.error_kinds()))
        if k2 != refk and o.status not in ("crash", "hang", "silent-fail"):
            r.violation("order-dependent:%s-vs-%s%s" % (ref.status, o.status, mech), "moving definitions changed the result %s (%s)" % (what, tag),
                        {"k": "pair", "a": outs[0][1], "b": text, "ctx": ctx}, ref.brief(), o.brief())
            break
    if anchor_vals is not None and ref.status == "ok":
        want = b"".join(bytes([(v & 0xFFFF) & 255, (v & 0xFFFF) >> 8]) for v in anchor_vals)
        got = ref.code[-(len(want) + 2):-2]
        if got != want:
            r.violation("anchor", "symbol values differ from the independently computed ones %s" % (what,), {"k": "prog", "text": outs[0][1], "ctx": ctx},
                        want.hex(), got.hex())


def check(case, r, tier):
    k = case["k"]
    if k == "prog":
        o = driver.assemble(shadow_files(case.get("ctx"), case["text"]), tree=SHADOW_TREE)
        r.ran(o.cls(), key=case["text"])
        if o.status in ("crash", "hang", "silent-fail"):
            r.violation("placement:%s" % o.cls(), "internal failure", case, None, o.brief())
        return
    if k == "pair":
        a = driver.assemble(shadow_files(case.get("ctx"), case["a"]), tree=SHADOW_TREE)
        b = driver.assemble(shadow_files(case.get("ctx"), case["b"]), tree=SHADOW_TREE)
        r.ran(a.cls(), key=case["a"])
        r.ran(b.cls(), key=case["b"])
        if (a.status, a.base, a.code, tuple(a.error_kinds())) != (b.status, b.base, b.code, tuple(b.error_kinds())):
            r.violation("order-dependent:%s-vs-%s" % (a.status, b.status), "moving definitions changed the result", case, a.brief(), b.brief())
        return
    if k == "dag":
        ds = case["ds"]
        defs = ["%s = %s" % (it[0], it[1]) for it in DSETS[ds]]
        uses = [USES[i][1] for i in case["uses"]]
        has_skip = any(USES[i][0] == "skip" for i in case["uses"])
        if ds == "labels" and any(USES[i][0] in ("blkb", "repeat", "align", "skip", "angle") for i in case["uses"]):
            return  # a size that depends on a label placed after it is genuinely self-referential (C08/C12's subject)
        for reg in REGIMES:
            if has_skip and reg != "first":
                continue  # '. =' is a skip only once the base is set
            base = 0o2000 if reg != "none" else 0o1000
            nd, nu = len(defs), len(uses)
            variants = []
            seen = set()

            def add(tag, stmts):
                t = tuple(stmts)
                if t not in seen:
                    seen.add(t)
                    variants.append((tag, program(list(stmts), reg, has_skip)))
            base_order = defs + uses
            add("base", base_order)
            add("uses-first", uses + defs)
            add("uses-first-reversed", uses + defs[::-1])
            for perm in itertools.permutations(range(nd)):
                add("perm%s" % (perm,), [defs[i] for i in perm] + uses)
            if nu == 2:
                for perm in itertools.permutations(range(nd)):
                    add("split%s" % (perm,), [uses[0]] + [defs[i] for i in perm] + [uses[1]])
            # deviation 1: each definition moved to every position
            for i in range(nd):
                rest = base_order[:i] + base_order[i + 1:]
                for p in range(len(rest) + 1):
                    add("move%d->%d" % (i, p), rest[:p] + [defs[i]] + rest[p:])
            if tier == "thorough":
                for i, j in itertools.combinations(range(nd), 2):
                    rest = [s for n, s in enumerate(base_order) if n not in (i, j)]
                    for p in range(len(rest) + 1):
                        for q in range(len(rest) + 2):
                            tmp = rest[:p] + [defs[i]] + rest[p:]
                            add("move%d,%d->%d,%d" % (i, j, p, q), tmp[:q] + [defs[j]] + tmp[q:])
            # anchor: label addresses - lbl = base; lbe after everything: computed from the base-order image length
            o = driver.assemble([("p.mac", variants[0][1])])
            anchor = None
            if o.status == "ok":
                lbl = base
                lbe = base + len(o.code) - 2
                vals = dvalues(ds, lbl, lbe)
                anchor = [vals[n] for n in "abcd"]
            mech = ":bare-name-statement" if any(USES[i][0] == "bare" for i in case["uses"]) else ""
            if case.get("shadow"):
                if reg != "first":
                    continue
                for ctx in ("linked-before", "linked-after", "included-top"):
                    check_variants(r, (ds, tuple(case["uses"]), reg, ctx), variants, anchor, what="(set %s, uses %s, regime %s, same names exported by %s)" % (ds, uses, reg, ctx),
                                   mech=mech or ":shadowed-export", ctx=ctx)
                continue
            check_variants(r, (ds, tuple(case["uses"]), reg), variants, anchor, what="(set %s, uses %s, regime %s)" % (ds, uses, reg), mech=mech)
        return
    if k == "chain":
        for depth in case["depths"]:
            kind = case["kind"]
            if kind == "alias":
                defs = ["x0 = 7"] + ["x%d = x%d" % (i, i - 1) for i in range(1, depth + 1)]
                val = 7
            elif kind == "add":
                defs = ["x0 = 7"] + ["x%d = x%d + 1" % (i, i - 1) for i in range(1, depth + 1)]
                val = 7 + depth
            else:
                defs = ["x0 = 7"] + ["x%d = <x%d * 3> / 2" % (i, i - 1) for i in range(1, depth + 1)]
                val = 7
                for _ in range(depth):
                    val = (val * 3) // 2
            use = ".dword x%d" % depth
            variants = [("forward", "\n".join(defs + [use]) + "\n"), ("backward", "\n".join(defs[::-1] + [use]) + "\n"),
                        ("use-first-forward", "\n".join([use] + defs) + "\n"), ("use-first-backward", "\n".join([use] + defs[::-1]) + "\n"),
                        ("use-middle", "\n".join(defs[:depth // 2] + [use] + defs[depth // 2:]) + "\n")]
            outs = []
            for tag, text in variants:
                o = driver.assemble([("p.mac", text)])
                r.states += 1
                r.trans += depth
                want = bytes([(val >> 16) & 255, (val >> 24) & 255, val & 255, (val >> 8) & 255])
                good = o.status == "ok" and o.code == want
                r.ran("ok" if good else o.cls(), key=(kind, depth, tag))
                if not good:
                    r.violation("chain:%s:%s" % (kind, o.cls() if o.status != "ok" else "wrong-value"),
                                "definition chain of depth %d (%s, %s order) does not yield %d" % (depth, kind, tag, val),
                                {"k": "prog", "text": text}, want.hex(), o.brief())
        return
    if k == "practice":
        d = os.path.join(PRACTICE, case["name"])
        src = os.path.join(d, "code.mac")
        with open(src, encoding="utf-8") as f:
            text = f.read()
        lines = text.split("\n")
        # top-level constant definitions: 'name = expr' on a line of its own, outside braces, no '.', no local label
        depth = 0
        cand = []
        end_at = None
        for i, ln in enumerate(lines):
            code = ln.split(";")[0]
            if end_at is None and re.match(r"^\s*\.?end\s*$", code, re.I):
                end_at = i
            if depth == 0 and end_at is None:
                m = re.match(r"^\s*([A-Za-z_$][\w$.]*)\s*=\s*([^=].*?)\s*$", code)
                if m and '"' not in code and "'" not in code and "{" not in code and "}" not in code:
                    rhs = m.group(2)
                    if not re.search(r"(?<![\w$.])\.(?![\w$])", rhs) and not re.search(r"(?<![\w$.])\d[\w$]*\$", rhs) and not re.search(r"\d:", rhs):
                        cand.append(i)
            depth += code.count("{") - code.count("}")
        if tier != "thorough" and len(cand) > 24:
            step = len(cand) / 24.0
            cand = [cand[int(j * step)] for j in range(24)]
        rec0 = assemble_file(src, text)
        r.states += 1
        r.ran(rec0.cls(), key=("practice", case["name"], "base"))
        if rec0.status != "ok":
            r.violation("practice-not-assembled", "practice program does not assemble", case, None, rec0.brief())
            return
        ref = (rec0.status, rec0.base, rec0.code)
        limit = end_at if end_at is not None else len(lines)
        for i in cand:
            rest = lines[:i] + lines[i + 1:]
            for where, pos in (("top", 0), ("bottom", limit - 1)):
                new = rest[:pos] + [lines[i]] + rest[pos:]
                o = assemble_file(src, "\n".join(new))
                r.states += 1
                r.trans += 1
                r.ran(o.cls(), key=("practice", case["name"], i, where), nontrivial=o.status == "ok")
                if (o.status, o.base, o.code) != ref:
                    r.violation("practice-order-dependent:%s" % o.cls(), "moving line %d (%r) of %s to the %s changed the result" % (i + 1, lines[i].strip(), case["name"], where),
                                {"k": "practice-move", "name": case["name"], "line": i, "where": where}, {"status": "ok", "len": len(rec0.code)}, o.brief())
                    break
        return


def assemble_file(src, text):
    from pdpy11 import parser, reports
    from pdpy11.compiler import Compiler
    rec = driver.Recorder()
    out = driver.Outcome()
    try:
        with reports.handle_reports(rec):
            comp = Compiler()
            base, code = comp.compile_and_link_files([parser.parse(src, text)])
        out.status, out.base, out.code = "ok", base, bytes(code)
    except reports.UnrecoverableError:
        out.status = "fail"
    except driver.VerifHang:
        out.status = "hang"
    except Exception as ex:
        out.status = "crash"
        out.exc = type(ex).__name__
        out.site = driver.crash_site(ex.__traceback__)
    out.reports = rec.reports
    d = driver.module_state_dirty()
    if d:
        driver.reset_module_state()
    return out
