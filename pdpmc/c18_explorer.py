"""C18 explorer: runs in a *fresh* interpreter (pristine import-time state of the pdpy11 package) and explores the
process-state graph with fork(): a live interpreter cannot be copied, but a forked child is an exact copy of its state.
Usage: python -m pdpmc.c18_explorer <mode> [args as JSON]   -> JSON on stdout
 modes: ref            outcome of every event from the pristine state (one fork per event)
        bfs <depth>    breadth-first search over canonical state fingerprints; every event is applied in every new state
        pairs          every ordered pair of events (state reached by the first = one fork, second = one fork each)
        triples <i>    every ordered triple starting with event i
        seq <[i,...]>  one history in one process, outcome after every step
"""
import os
import sys
import json
import types
import hashlib
import shutil
import tempfile

from . import driver
from .driver import assemble

SCRATCH = os.environ.get("PDPMC_C18_SCRATCH")   # created in main() when the module runs as the explorer
TREE = {
    "once.mac": ".once\n.byte 21\n.byte 22\n",
    "inc2.mac": ".byte 7\n.byte 10\n",
    "incerr.mac": "lab:\tnop\n\t.word 200000\n\tnop\n",
    "f5.bin": b"\x01\x02\x03\x04\x05",
    "lit.mac": "\t.byte '\u0451\n\t.word \"\u044f\u044e\n\t.ascii /\u0451\u2500/\n\t.even\n",
}

# ---- events: (name, kind, payload) -------------------------------------------------------------------------------------------------
P_VALID = "start:\tmov #start, r0\n\t.word 1, 2\nlp:\tsob r3, lp\n\thalt\n"
EVENTS = [
    ("valid-small", "asm", [("m.mac", P_VALID)]),
    ("valid-forward", "asm", [("m.mac", "\t.blkb n\n\t.even\n\tmov #end, r1\n\t.word end-., k\n\t.repeat n { inc r0 }\nend:\nn = 3\nk = n*2\n\t.link 2000+end-end\n")]),
    ("valid-expr-cache", "asm", [("m.mac", "\t.link 1000\n\t.repeat 3 { .word ./2 }\nx = 4\n\t.repeat 2 { mov 2+x(r0), r1 }\n\t.word 7/2, 1 << 3, 10.%3\n")]),
    ("warnings", "asm", [("m.mac", "\t.word\n\tclr @r0\n\temt #1\n\tnop nop\nmov:\tnop\n\t.word 'x'\n")]),
    ("parse-critical", "asm", [("m.mac", "\tnop\n\t.word ^Q1\n\tnop\n")]),
    ("parse-error", "asm", [("m.mac", "\tnop\nr1:\tnop\n\tclr%0\n\t.word 18\n")]),
    ("compile-error", "asm", [("m.mac", "\tnop\n\tbogus r0\n\tmov r0\n\tjsr 5, (r1)\n\tnop\n")]),
    ("link-error", "asm", [("m.mac", "\tclr undefsym\n\t.word 200000\n\tbr .+1000\n\t.byte 1\n\t.word 5\n")]),
    ("nested-try", "asm", [("m.mac", "\tmov %unk, r0\n\tldf %unk2, ac0\n\t.blkb -1\n\t.repeat -1 { nop }\n")]),
    ("link-cycle", "asm", [("m.mac", "\t.link e\n\tnop\ne:\tnop\n")]),
    ("def-cycle", "asm", [("m.mac", "a = b\nb = a+1\n\t.word a\n\t.blkb c\nc:\n")]),
    ("odd-inputs", "asm", [("m.mac", ". +\nmov mov {\n.repeat 1, { nop }\n")]),
    ("huge", "asm", [("m.mac", "\t.byte 1 << 20000.\n\t.align 0\n\temt 1 << 20000.\n")]),
    ("reg-as-symbol", "asm", [("m.mac", "x = r1\n\t.word x\n\tclr r1+1\n")]),
    ("two-files", "asm", [("m.mac", "first::\tnop\n\tjmp second\n"), ("n.mac", "second::\tmov first, r0\nx = 5\n\t.word x\n")]),
    ("include", "asm", [("m.mac", "\tnop\n\t.include \"inc2.mac\"\n\tinsert_file \"f5.bin\"\n\t.even\n")]),
    ("once", "asm", [("m.mac", "\t.include \"once.mac\"\n\t.byte 1\n\t.include \"once.mac\"\n")]),
    ("once-direct", "asm", [("once.mac", ".once\n\tmov #1, r0\n\thalt\n")]),
    ("include-error", "asm", [("m.mac", "\tnop\n\t.include \"incerr.mac\"\n\tnop\n")]),
    ("charset-koi", "asm-koi8", [("m.mac", "\t.ascii \"Привет\"\n\t.even\n\t.word 'ы\n")]),
    ("abort-1-link-error", "abort", (1, [("m.mac", "\tclr undefsym\n\t.word 200000\n\tbr .+1000\n")])),
    ("abort-2-link-error", "abort", (2, [("m.mac", "\tclr undefsym\n\t.word 200000\n\tbr .+1000\n")])),
    ("abort-1-warnings", "abort", (1, [("m.mac", "\t.word\n\tclr @r0\n\temt #1\n")])),
    ("abort-1-nested", "abort", (1, [("m.mac", "\t.blkb -1\n\tmov %unk, r0\n")])),
    ("abort-1-include-error", "abort", (1, [("m.mac", "\tnop\n\t.include \"incerr.mac\"\n")])),
    ("abort-1-cycle", "abort", (1, [("m.mac", "a = a\n\t.word a\n")])),
    ("cli-valid", "cli", (["m.mac", "-o", "out.bin", "--lst"], {"m.mac": P_VALID})),
    ("cli-make", "cli", (["m.mac", "--report-format", "bare", "-Wall"], {"m.mac": P_VALID + "\tclr @r0\nmake_raw \"r.raw\"\nmake_wav \"t.wav\", \"NAME\"\n"})),
    ("cli-error", "cli", (["m.mac", "-o", "out.bin", "--report-format", "bare"], {"m.mac": "\tnop\n\tclr undefsym\n\tbogus\n"})),
    ("cli-w-overlap-1", "cli", (["m.mac", "-o", "o.bin", "-Wall", "-Wno-meta-typo", "-Wno-legacy-deferred", "--report-format", "bare"], {"m.mac": "\tword 5\n\tclr @r0\n\t.word\n"})),
    ("cli-w-overlap-2", "cli", (["m.mac", "-o", "o.bin", "-Wno-meta-typo", "-Wno-default", "-Wall", "-Wno-excess-hash"], {"m.mac": "\tword 5\n\tclr @r0\n\t.word\n\temt #1\n"})),
    ("cli-w-overlap-3", "cli", (["m.mac", "-o", "o.bin", "-Wmeta-typo", "-Wno-all", "-Wimplicit-operand"], {"m.mac": "\tword 5\n\tclr @r0\n\t.word\n"})),
    # token trees, codec objects, tables and counters that an implementation might keep between runs
    ("caret-nested", "asm", [("m.mac", "\t.word ^/ ^|1| + 1 /\n\t.word ^|2| + ^/3/\n")]),
    ("caret-top", "asm", [("m.mac", "\t.word ^|6/2|\n\tmov #^|x / 3|, r0\n\t.word ^/6|1/\nx = 11\n")]),
    ("bare-meta-names", "asm", [("m.mac", "list = 7\n\tlist, 5\npage:\tnop\neven = 2\n\t.word even\n")]),
    ("meta-without-dot", "asm", [("m.mac", "\tlist\n\tpage\n\tbyte 1\n\teven\n\tnop\n")]),
    ("charlit-bk", "asm", [("m.mac", "\t.byte '\u0451\n\t.include \"lit.mac\"\n\tmov #'\u044f, r0\n")]),
    ("charlit-koi", "asm-koi8", [("m.mac", "\t.byte '\u0451\n\t.include \"lit.mac\"\n\tmov #'\u044f, r0\n")]),
    ("charlit-utf8", "asm-utf8", [("m.mac", "\t.word '\u0451\n\t.include \"lit.mac\"\n\tmov #'\u044f, r0\n")]),
    ("exports", "asm", [("m.mac", "alpha::\tnop\nbeta == 12\n\t.extern gamma\ngamma:\tnop\n"), ("n.mac", "\tmov alpha, r0\n\t.word beta, gamma\n")]),
    ("private-same-names", "asm", [("m.mac", "alpha:\tnop\nbeta = 13\ngamma:\tnop\n"), ("n.mac", "\tmov alpha, r0\n\t.word beta, gamma\n")]),
    ("exports-again-other-file", "asm", [("m.mac", "\tnop\n"), ("n.mac", "alpha::\tnop\nbeta == 14\n\t.word alpha, beta\n")]),
    ("many-regions", "asm", [("m.mac", "".join("g%d:\tnop\n1$:\tbr 1$\n12:\tbr 12\n" % i for i in range(14)))]),
    ("cli-wav", "cli", (["m.mac"], {"m.mac": P_VALID + "make_wav \"n.wav\", \"NORMAL\"\n"})),
    ("cli-turbo-wav", "cli", (["m.mac"], {"m.mac": P_VALID + "make_turbo_wav \"t.wav\", \"TURBO\"\n"})),
    ("cli-both-wav", "cli", (["m.mac"], {"m.mac": P_VALID + "make_turbo_wav \"t.wav\"\nmake_wav \"n.wav\"\nmake_bin\n"})),
    ("cli-charset-koi", "cli", (["m.mac", "-o", "k.bin", "--charset", "koi8-r"], {"m.mac": "\t.ascii /\u0451/\n\t.byte '\u0451\n"})),
    # listings in which several names share one value (their order must not come from a hash table)
    ("cli-lst-equal-values", "cli", (["m.mac", "-o", "out.bin", "--lst"], {"m.mac": "a:\nb:\nzed:\tnop\nk1 = 0\nk2 = 0\nq9 = 1000\nalpha = 1000\nzeta = 1000\nc:\nd:\nbb:\tnop\n"})),
    ("cli-lst-equal-values-two-files", "cli", (["m.mac", "n.mac", "-o", "out.bin", "--lst"], {"m.mac": "first::\nf2:\nf3:\tnop\nx1 = 7\nx2 = 7\n", "n.mac": "second::\ns2:\nx1 = 7\ny = 7\nyy = 7\n\tnop\n\t.include \"inc2.mac\"\n"})),
    ("cli-critical", "cli", (["m.mac", "--implicit-bin"], {"m.mac": "\tnop\n\t.ascii \"abc\n"})),
]


def norm(s):
    return s.replace(SCRATCH, "<scratch>") if isinstance(s, str) else s


def run_event(i):
    """apply event i to the current process state; returns a JSON-able outcome. Module state is NOT reset afterwards."""
    name, kind, payload = EVENTS[i]
    root = os.path.join(SCRATCH, "w")
    if os.path.isdir(root):
        shutil.rmtree(root)
    os.makedirs(root)
    driver.write_tree(root, TREE)
    # the in-process driver places sources under scratch_root()/m ; point it at our fixed directory
    driver._scratch_root = (os.getpid(), SCRATCH)
    os.makedirs(os.path.join(SCRATCH, "m"), exist_ok=True)
    driver.write_tree(os.path.join(SCRATCH, "m"), TREE)
    if kind in ("asm", "asm-koi8", "asm-utf8", "abort"):
        if kind == "abort":
            at, files = payload
        else:
            at, files = None, payload
        out = assemble(files, charset={"asm-koi8": "koi8-r", "asm-utf8": "utf-8"}.get(kind, "bk"), abort_at=at, reset=False)
        reps = []
        for sev, k, spans in out.reports:
            reps.append([sev, k, [[norm(s[6]), norm(s[7])] for s in spans]])
        return {"status": out.status, "base": out.base, "bytes": out.code.hex() if out.code is not None else None, "reports": reps,
                "exc": out.exc, "site": out.site}
    argv, tree = payload
    full = dict(TREE)
    full.update(tree)
    co = driver.cli(argv, full, keep=True)
    try:
        files = {}
        for p in co.created() + co.modified():
            data = driver.read_file(co.root, p)
            files[p] = hashlib.sha1(data.replace(co.root.encode(), b"<root>")).hexdigest()
        def clean(t):
            return t.replace(co.root, "<root>")
        return {"exit": co.exit, "files": files, "stdout": clean(co.stdout.decode("utf-8", "replace")), "stderr_errors": clean(co.stderr).count("Error"), "warnings": clean(co.stderr).count("Warning") + co.stdout.decode("utf-8", "replace").count(": Warning: "),
                "internal": co.internal_error}
    finally:
        shutil.rmtree(co.root, ignore_errors=True)


# ---- canonical fingerprint of the package's mutable state ----------------------------------------------------------------------------
def fingerprint():
    import pdpy11
    seen = {}

    def canon(v, depth):
        if depth > 8:
            return "<deep>"
        if v is None or isinstance(v, (bool, int, float, str, bytes)):
            return repr(v) if not isinstance(v, (str, bytes)) or len(v) < 80 else hashlib.sha1(v if isinstance(v, bytes) else v.encode("utf-8", "surrogatepass")).hexdigest()
        if isinstance(v, (types.FunctionType, types.BuiltinFunctionType, types.MethodType, types.ModuleType, type(len), staticmethod, classmethod, property)):
            return "<fn>"
        if isinstance(v, type):
            if getattr(v, "__module__", "").startswith("pdpy11"):
                return "<class %s>" % v.__qualname__   # class attributes are walked separately
            return "<type>"
        if id(v) in seen:
            return "<ref %d>" % seen[id(v)]
        seen[id(v)] = len(seen)
        if isinstance(v, (list, tuple)):
            return [canon(x, depth + 1) for x in v]
        if isinstance(v, (set, frozenset)):
            return sorted(json.dumps(canon(x, depth + 1), sort_keys=True, default=str) for x in v)
        if isinstance(v, dict):
            return sorted((json.dumps(canon(k, depth + 1), sort_keys=True, default=str), canon(x, depth + 1)) for k, x in v.items())
        mod = getattr(type(v), "__module__", "")
        if mod.startswith("pdpy11") and hasattr(v, "__dict__"):
            return ["<obj %s>" % type(v).__qualname__, canon(vars(v), depth + 1)]
        return "<%s>" % type(v).__qualname__

    state = {}
    for mname in sorted(sys.modules):
        if not (mname == "pdpy11" or mname.startswith("pdpy11.")):
            continue
        m = sys.modules[mname]
        md = {}
        for k in sorted(vars(m)):
            if k.startswith("__"):
                continue
            v = vars(m)[k]
            if isinstance(v, type) and getattr(v, "__module__", "") == mname:
                cd = {}
                for ck in sorted(vars(v)):
                    cv = vars(v)[ck]
                    if ck.startswith("__") or isinstance(cv, (types.FunctionType, staticmethod, classmethod, property)):
                        continue
                    if (mname, v.__name__, ck) == ("pdpy11.deferred", "Deferred", "next_instance_id"):
                        continue  # only names anonymous deferreds in repr(): not observable by the property
                    if (mname, v.__name__, ck) == ("pdpy11.deferred", "Progress", "epoch"):
                        # a clock that only moves forward and is only compared for equality with stamps taken from it by objects of
                        # the current assembly: its absolute value is not observable (pairs, triples and the long histories check the
                        # results themselves, whatever the fingerprint says)
                        continue
                    cd[ck] = canon(cv, 0)
                md["class " + k] = cd
            else:
                md[k] = canon(v, 0)
        state[mname] = md
    blob = json.dumps(state, sort_keys=True, default=str)
    return hashlib.sha1(blob.encode()).hexdigest()[:16], state


def fork_call(fn):
    """run fn() in a forked copy of this process and return its JSON result"""
    r, w = os.pipe()
    pid = os.fork()
    if pid == 0:
        os.close(r)
        try:
            res = fn()
            data = json.dumps(res).encode()
        except BaseException as ex:  # noqa
            import traceback
            data = json.dumps({"explorer_error": repr(ex), "tb": traceback.format_exc()[-800:]}).encode()
        with os.fdopen(w, "wb") as f:
            f.write(data)
        os._exit(0)
    os.close(w)
    with os.fdopen(r, "rb") as f:
        data = f.read()
    os.waitpid(pid, 0)
    return json.loads(data.decode())


def mode_ref():
    return [fork_call(lambda i=i: run_event(i)) for i in range(len(EVENTS))]


MAX_STATES = 40


def mode_bfs(max_depth):
    ref = mode_ref()
    fp0, _ = fingerprint()
    seen = {fp0: []}
    frontier = [[]]
    transitions = 0
    diffs = []
    depth_reached = 0
    capped = False
    while frontier and depth_reached < max_depth and not capped:
        nxt = []
        for hist in frontier:
            if len(seen) > MAX_STATES:
                capped = True   # a counter that keeps counting: the graph will never close, stop and say so
                break
            def explore(hist=hist):
                for e in hist:
                    run_event(e)
                out = []
                for i in range(len(EVENTS)):
                    def step(i=i):
                        o = run_event(i)
                        return {"outcome": o, "fp": fingerprint()[0]}
                    out.append(fork_call(step))
                return out
            results = fork_call(explore)
            if isinstance(results, dict) and "explorer_error" in results:
                return {"explorer_error": results}
            for i, res in enumerate(results):
                transitions += 1
                if "explorer_error" in res:
                    diffs.append({"history": hist, "event": i, "error": res})
                    continue
                if res["outcome"] != ref[i]:
                    diffs.append({"history": hist, "event": i, "expected": ref[i], "observed": res["outcome"]})
                if res["fp"] not in seen:
                    seen[res["fp"]] = hist + [i]
                    nxt.append(hist + [i])
        frontier = nxt
        depth_reached += 1
    return {"states": len(seen), "transitions": transitions, "closed": not frontier and not capped, "capped_at": MAX_STATES if capped else None, "depth": depth_reached, "diffs": diffs[:20], "ndiffs": len(diffs),
            "state_histories": list(seen.values())[:10]}


def mode_pairs(firsts):
    ref = mode_ref()
    diffs, n = [], 0
    for a in firsts:
        def after_a(a=a):
            first = run_event(a)
            out = [first]
            for b in range(len(EVENTS)):
                out.append(fork_call(lambda b=b: run_event(b)))
            return out
        res = fork_call(after_a)
        if res[0] != ref[a]:
            diffs.append({"history": [], "event": a, "expected": ref[a], "observed": res[0]})
        for b, o in enumerate(res[1:]):
            n += 1
            if o != ref[b]:
                diffs.append({"history": [a], "event": b, "expected": ref[b], "observed": o})
    return {"checked": n, "diffs": diffs[:20], "ndiffs": len(diffs)}


def mode_triples(a):
    ref = mode_ref()
    diffs, n = [], 0

    def after_a():
        run_event(a)
        out = []
        for b in range(len(EVENTS)):
            def after_b(b=b):
                run_event(b)
                return [fork_call(lambda c=c: run_event(c)) for c in range(len(EVENTS))]
            out.append(fork_call(after_b))
        return out
    res = fork_call(after_a)
    for b, row in enumerate(res):
        for c, o in enumerate(row):
            n += 1
            if o != ref[c]:
                diffs.append({"history": [a, b], "event": c, "expected": ref[c], "observed": o})
    return {"checked": n, "diffs": diffs[:20], "ndiffs": len(diffs)}


def mode_seq(seq):
    ref = mode_ref()

    def go():
        diffs = []
        for n, e in enumerate(seq):
            o = run_event(e)
            if o != ref[e]:
                diffs.append({"history": seq[:n], "event": e, "expected": ref[e], "observed": o})
                if len(diffs) >= 10:
                    break
        return {"checked": len(seq), "diffs": diffs, "ndiffs": len(diffs), "final_fp": fingerprint()[0]}
    return fork_call(go)


def main():
    global SCRATCH
    if not SCRATCH:
        SCRATCH = tempfile.mkdtemp(prefix="pdpmc-c18-", dir="/dev/shm" if os.path.isdir("/dev/shm") else None)
    mode = sys.argv[1]
    arg = json.loads(sys.argv[2]) if len(sys.argv) > 2 else None
    try:
        if mode == "ref":
            res = mode_ref()
        elif mode == "bfs":
            res = mode_bfs(arg or 50)
        elif mode == "pairs":
            res = mode_pairs(arg if arg is not None else list(range(len(EVENTS))))
        elif mode == "triples":
            res = mode_triples(arg)
        elif mode == "seq":
            res = mode_seq(arg)
        elif mode == "fp":
            res = fingerprint()[1]
        else:
            raise SystemExit("unknown mode")
    finally:
        if not os.environ.get("PDPMC_C18_SCRATCH"):
            shutil.rmtree(SCRATCH, ignore_errors=True)
    sys.stdout.write(json.dumps(res))


if __name__ == "__main__":
    main()
