"""Explorer runtime: distributes an enumerated case space over worker processes,
merges results deterministically, matches violations against the committed
known-findings file, writes replay artefacts and the evidence file."""
import os
import sys
import json
import time
import signal
import hashlib
import resource
import importlib
import threading
import collections
import multiprocessing as mp

VERIF = os.path.dirname(os.path.dirname(os.path.abspath(__file__)))
_OUT = os.environ.get("PDPMC_OUT") or VERIF  # PDPMC_OUT: scratch output dir when trying seeded changes in a worktree
EVIDENCE_DIR = os.path.join(_OUT, "evidence")
REPLAY_DIR = os.path.join(_OUT, "replays")
FINDINGS_FILE = os.path.join(VERIF, "known_findings.json")
NWORKERS = int(os.environ.get("PDPMC_WORKERS", "16"))


def h64(obj):
    if not isinstance(obj, (bytes, str)):
        obj = json.dumps(obj, sort_keys=True, default=repr)
    if isinstance(obj, str):
        obj = obj.encode("utf-8", "surrogatepass")
    return int.from_bytes(hashlib.blake2b(obj, digest_size=8).digest(), "big")


class WallClock(BaseException):
    pass


class R:
    """Accumulator a property's check() writes into (one per chunk)."""

    def __init__(self):
        self.evals = 0
        self.classes = collections.Counter()
        self.keys = set()
        self.viol = []
        self.states = 0
        self.trans = 0
        self.samples = []
        self.extra = collections.Counter()
        self.index = 0

    def ran(self, cls, key=None, nontrivial=True, n=1):
        """Record n executions of the implementation with outcome class cls;
        key identifies the case for the distinct-nontrivial count."""
        self.evals += n
        self.classes[cls] += n
        if nontrivial and key is not None:
            self.keys.add(h64(key))

    def violation(self, sig, what, case, expected=None, observed=None):
        self.viol.append({"index": self.index, "sig": sig, "what": what, "case": case,
                          "expected": expected, "observed": observed})

    def sample(self, s):
        if len(self.samples) < 3:
            self.samples.append(s)

    def pack(self):
        # keep at most 40 violations per chunk, but count all per signature
        per_sig = collections.Counter(v["sig"] for v in self.viol)
        kept, seen = [], collections.Counter()
        for v in self.viol:
            if seen[v["sig"]] < 2 and len(kept) < 40:
                kept.append(v)
            seen[v["sig"]] += 1
        return (self.evals, dict(self.classes), self.keys, kept, dict(per_sig), self.states, self.trans,
                self.samples, dict(self.extra))


_prop = None


def _init_worker(prop_name, mem_limit):
    global _prop
    signal.signal(signal.SIGINT, signal.SIG_IGN)
    if mem_limit:
        try:
            resource.setrlimit(resource.RLIMIT_AS, (mem_limit, mem_limit))
        except (ValueError, OSError):
            pass
    _prop = importlib.import_module("pdpmc.props." + prop_name)
    signal.signal(signal.SIGALRM, _on_alarm)


def _on_alarm(_sig, _frm):
    raise WallClock()


def _run_chunk(arg):
    start, cases, tier = arg
    r = R()
    timeout = getattr(_prop, "CASE_TIMEOUT", 120)
    for i, case in enumerate(cases):
        r.index = start + i
        try:
            signal.alarm(timeout)
            try:
                _prop.check(case, r, tier)
            finally:
                signal.alarm(0)
        except WallClock:
            r.ran("hang(wallclock)", key=case)
            r.violation("hang(wallclock)", "case did not finish within %ds" % timeout, case)
        except MemoryError:
            r.ran("resource(memory)", key=None)
            r.extra["cases_out_of_memory"] += 1
        if len(r.samples) < 1 and i == 0:
            r.sample(case)
    return start, r.pack()


def _worker_main(conn, prop_name, mem):
    _init_worker(prop_name, mem)
    try:
        while True:
            try:
                task = conn.recv()
            except EOFError:
                return
            if task is None:
                return
            conn.send(_run_chunk(task))
    finally:
        from . import driver
        driver.cleanup_now()


def run_pool(prop_name, mem, chunk_iter, merge, total):
    """Own worker pool: survives the death of a worker (the chunk it held is re-run case by case in
    fresh workers, and a case that kills its worker on its own is reported)."""
    from multiprocessing.connection import wait as mpwait
    ctx = mp.get_context("fork")
    workers = {}  # conn -> (process, task)

    def spawn():
        parent, child = ctx.Pipe()
        p = ctx.Process(target=_worker_main, args=(child, prop_name, mem), daemon=True)
        p.start()
        child.close()
        workers[parent] = [p, None, 0.0]
        return parent

    hard_timeout = getattr(importlib.import_module("pdpmc.props." + prop_name), "CASE_TIMEOUT", 120) + 10
    pending = collections.deque()  # tasks to retry (single cases)
    died_once = set()
    it = iter(chunk_iter)
    exhausted = False

    def next_task():
        nonlocal exhausted
        if pending:
            return pending.popleft()
        if exhausted:
            return None
        try:
            return next(it)
        except StopIteration:
            exhausted = True
            return None

    idle = [spawn() for _ in range(NWORKERS)]
    while True:
        while idle:
            t = next_task()
            if t is None:
                break
            c = idle.pop()
            workers[c][1] = t
            workers[c][2:] = [time.time()]
            c.send(t)
        busy = [c for c, w in workers.items() if w[1] is not None]
        if not busy:
            break
        ready = mpwait(busy, timeout=2)
        now = time.time()
        for c in busy:
            # hard deadline: a C-level computation cannot be interrupted by the in-worker alarm
            if c not in ready and now - workers[c][2] > hard_timeout * (1 if len(workers[c][1][1]) == 1 else 3):
                workers[c][0].kill()
        for c in ready:
            p, t = workers[c][0], workers[c][1]
            try:
                start, packed = c.recv()
            except (EOFError, OSError):
                # worker died while holding task t
                p.join(timeout=1)
                del workers[c]
                start, cases, tier = t
                if len(cases) > 1:
                    for i, case in enumerate(cases):
                        pending.append((start + i, [case], tier))
                elif p.exitcode != -9 and start not in died_once:
                    # not the deadline kill: once more in a fresh worker - what kills its worker by itself does so again, a
                    # transient failure of the machine (memory pressure from other jobs, a full scratch disk) does not
                    died_once.add(start)
                    pending.append(t)
                else:
                    r = R()
                    r.index = start
                    if p.exitcode == -9:
                        r.ran("hang(wallclock)", key=cases[0])
                        r.violation("hang(wallclock)", "the case did not finish within %d s and its worker was killed" % hard_timeout, cases[0])
                    else:
                        r.ran("worker-died", key=cases[0])
                        r.violation("worker-died", "the worker process died while running this case (exit code %r)" % p.exitcode, cases[0])
                    merge(start, r.pack())
                idle.append(spawn())
                continue
            workers[c][1] = None
            idle.append(c)
            merge(start, packed)
    for c, w in workers.items():
        try:
            c.send(None)
        except OSError:
            pass
    for c, w in workers.items():
        p = w[0]
        p.join(timeout=2)
        if p.is_alive():
            p.terminate()


def load_findings():
    if not os.path.exists(FINDINGS_FILE):
        return []
    with open(FINDINGS_FILE) as f:
        return json.load(f)["findings"]


def run_property(prop_name, tier, seed, replay=None):
    import tempfile
    import shutil
    base = "/dev/shm" if os.path.isdir("/dev/shm") and os.access("/dev/shm", os.W_OK) else None
    root = tempfile.mkdtemp(prefix="pdpmc-run-", dir=base)
    os.environ["PDPMC_SCRATCH_ROOT"] = root
    try:
        return _run_property(prop_name, tier, seed, replay)
    finally:
        shutil.rmtree(root, ignore_errors=True)


def _run_property(prop_name, tier, seed, replay=None):
    t0 = time.time()
    prop = importlib.import_module("pdpmc.props." + prop_name)
    pid = prop.ID
    os.makedirs(EVIDENCE_DIR, exist_ok=True)
    os.makedirs(REPLAY_DIR, exist_ok=True)
    from . import batch
    batch.set_tier(tier if not replay else "quick")

    if replay:
        return run_replay(prop, replay, tier)

    # -- harness self-check: one recorded case replayed twice must give identical results
    from . import driver  # noqa: F401  (asserts that the repository under test is PDPMC_REPO)
    gen = prop.cases(tier)
    probe_cases = []
    for c in gen:
        probe_cases.append(c)
        if len(probe_cases) >= 3:
            break
    sigs = []
    for _ in range(2):
        r = R()
        for c in probe_cases:
            prop.check(c, r, tier)
        sigs.append((r.evals, sorted(r.classes.items()), sorted(r.keys), [(v["sig"], v["what"]) for v in r.viol]))
    if sigs[0] != sigs[1]:
        print("HARNESS-ERROR property=%s: replaying the same cases twice gave different results" % pid)
        return 2
    driver.cleanup_now()

    chunk = getattr(prop, "CHUNK", 200)
    mem = getattr(prop, "MEM_LIMIT", 4 << 30)
    total = collections.Counter()
    classes = collections.Counter()
    keys = set()
    viols = []
    per_sig = collections.Counter()
    samples = []
    extra = collections.Counter()
    ncases = 0

    def chunks():
        nonlocal ncases
        buf, start = [], 0
        for c in prop.cases(tier):
            buf.append(c)
            if len(buf) >= chunk:
                yield (start, buf, tier)
                start += len(buf)
                ncases += len(buf)
                buf = []
        if buf:
            yield (start, buf, tier)
            ncases += len(buf)

    def merge(start, packed):
        ev, cl, ks, vs, ps, st, tr, sm, ex = packed
        total["evals"] += ev
        total["states"] += st
        total["trans"] += tr
        classes.update(cl)
        keys.update(ks)
        viols.extend(vs)
        per_sig.update(ps)
        extra.update(ex)
        if sm and (len(samples) < 6 or (start // chunk) % 97 == seed % 97):
            samples.extend((start, s) for s in sm[:1])

    run_pool(prop_name, mem, chunks(), merge, total)
    viols.sort(key=lambda v: v["index"])
    samples.sort(key=lambda s: s[0])
    if len(samples) > 6:
        k = seed % max(1, len(samples) - 5)
        samples = samples[:3] + samples[3 + k:6 + k]

    # -- classify violations against the committed known-findings file
    findings = [f for f in load_findings() if f["property"] == pid]
    known = {f["signature"]: f for f in findings if f["status"] == "known"}
    first_by_sig = {}
    for v in viols:
        first_by_sig.setdefault(v["sig"], v)
    new_sigs = [s for s in first_by_sig if s not in known]
    known_hit = {s: per_sig[s] for s in first_by_sig if s in known}
    for s in sorted(known_hit):
        print("KNOWN-FINDING: property=%s %s [%s] (%d cases, e.g. %s)" % (
            pid, known[s]["what"], s, known_hit[s], json.dumps(first_by_sig[s]["case"], ensure_ascii=False)[:160]))
    rc = 0
    reported = 0
    for s in new_sigs:
        v = first_by_sig[s]
        if hasattr(prop, "shrink"):
            try:
                v = shrink_violation(prop, v, tier)
            except Exception:  # shrinking is best effort
                pass
        path = write_replay(pid, v, per_sig[s])
        if reported < 12:
            print("VIOLATION property=%s replay=%s" % (pid, path))
            print("  signature: %s (%d cases)\n  what: %s\n  case: %s\n  expected: %s\n  observed: %s" % (
                s, per_sig[s], v["what"], json.dumps(v["case"], ensure_ascii=False)[:600],
                json.dumps(v["expected"], ensure_ascii=False, default=repr)[:400],
                json.dumps(v["observed"], ensure_ascii=False, default=repr)[:400]))
        reported += 1
        rc = 1

    wall = time.time() - t0
    level = prop.LEVEL
    cov = {
        "evaluations": total["evals"],
        "distinct_nontrivial": len(keys),
        "rule": prop.RULE,
        "samples": [trim_sample(s) for _, s in samples] or [trim_sample(c) for c in probe_cases[:1]],
        "exhaustive": bool(getattr(prop, "EXHAUSTIVE", True)),
        "cases_enumerated": ncases,
        "distinct_observed_outcomes": len(classes),
        "outcome_classes": dict(sorted(classes.items(), key=lambda kv: -kv[1])[:25]),
        "bound": prop.bound(tier) if hasattr(prop, "bound") else "",
        "known_findings_hit": known_hit,
        "workers": NWORKERS,
    }
    if level == "model_checking":
        cov["states"] = total["states"] or ncases
        cov["transitions"] = total["trans"] or total["evals"]
        cov["traces_validated_against_impl"] = total["evals"]
    for k, v in extra.items():
        cov[k] = v
    ev = {
        "property_id": pid, "tier": tier, "seed": seed, "level": level, "coverage": cov,
        "assumptions": list(getattr(prop, "ASSUMPTIONS", [])), "wall_s": round(wall, 2),
        "violations": len(new_sigs),
    }
    path = os.path.join(EVIDENCE_DIR, pid + ".json")
    with open(path + ".tmp", "w") as f:
        json.dump(ev, f, indent=1, ensure_ascii=False, default=repr)
    os.replace(path + ".tmp", path)
    print("%s %s: %d cases, %d executions, %d distinct non-trivial, %d outcome classes, %d known-finding signatures, %d new violations, %.1fs" % (
        pid, tier, ncases, total["evals"], len(keys), len(classes), len(known_hit), len(new_sigs), wall))
    if total["evals"] == 0 or len(keys) < 2:
        print("HARNESS-ERROR property=%s: vacuous run" % pid)
        return 2
    return rc


def trim_sample(s):
    if isinstance(s, dict):
        return {k: trim_sample(v) for k, v in s.items()}
    if isinstance(s, (list, tuple)) and len(s) > 8:
        return [trim_sample(x) for x in s[:5]] + ["... (%d more)" % (len(s) - 5)]
    if isinstance(s, (list, tuple)):
        return [trim_sample(x) for x in s]
    if isinstance(s, str) and len(s) > 1500:
        return s[:1500] + "... (%d more characters)" % (len(s) - 1500)
    return s


def write_replay(pid, v, count):
    name = "%s-%016x.json" % (pid, h64([v["sig"], v["case"]]))
    path = os.path.join(REPLAY_DIR, name)
    with open(path, "w") as f:
        json.dump({"property": pid, "signature": v["sig"], "what": v["what"], "case": v["case"],
                   "expected": v["expected"], "observed": v["observed"], "cases_with_signature": count},
                  f, indent=1, ensure_ascii=False, default=repr)
    return path


def shrink_violation(prop, v, tier):
    best = v
    improved = True
    budget = 300
    while improved and budget > 0:
        improved = False
        for cand in prop.shrink(best["case"]):
            budget -= 1
            r = R()
            prop.check(cand, r, tier)
            hit = [x for x in r.viol if x["sig"] == best["sig"]]
            if hit:
                best = hit[0]
                improved = True
                break
            if budget <= 0:
                break
    return best


def run_replay(prop, path, tier):
    with open(path) as f:
        rep = json.load(f)
    r = R()
    prop.check(rep["case"], r, tier)
    if r.viol:
        for v in r.viol:
            print("VIOLATION property=%s replay=%s" % (prop.ID, path))
            print("  signature: %s\n  what: %s\n  expected: %s\n  observed: %s" % (
                v["sig"], v["what"], json.dumps(v["expected"], default=repr)[:600], json.dumps(v["observed"], default=repr)[:600]))
        return 1
    print("replay %s: property %s holds on this case (%d executions)" % (path, prop.ID, r.evals))
    return 0
