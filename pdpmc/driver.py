"""Drivers that close the system: in-process assembly and in-process CLI runs of
the *current working tree* of the repository (PDPMC_REPO, default /repo)."""
import io
import os
import shutil
import sys
import atexit
import hashlib
import tempfile
import traceback

REPO = os.environ.get("PDPMC_REPO", "/repo")
os.environ["PDPY11_VERIF"] = "1"
os.environ.setdefault("PYTHONHASHSEED", "0")
if sys.path[0] != REPO:
    sys.path.insert(0, REPO)

import pdpy11  # noqa: E402
assert os.path.realpath(pdpy11.__file__).startswith(os.path.realpath(REPO) + os.sep), (pdpy11.__file__, REPO)
from pdpy11 import bk_encoding  # noqa: E402,F401  (registers the codec)
from pdpy11 import parser, reports, deferred  # noqa: E402
from pdpy11.compiler import Compiler  # noqa: E402
from pdpy11.deferred import wait, BaseDeferred  # noqa: E402

VerifHang = getattr(deferred, "VerifHang", None)
if VerifHang is None:  # hook missing: hangs can only be caught by the wall-clock alarm
    class VerifHang(BaseException):
        pass

PKG_DIR = os.path.join(os.path.realpath(REPO), "pdpy11") + os.sep

_scratch_root = None


def scratch_root():
    """Per-process scratch directory (under /dev/shm when available), removed at exit."""
    global _scratch_root
    if _scratch_root is None or _scratch_root[0] != os.getpid():
        base = os.environ.get("PDPMC_SCRATCH_ROOT")  # set by the engine: one directory per run, removed by the parent
        if not base or not os.path.isdir(base):
            base = "/dev/shm" if os.path.isdir("/dev/shm") and os.access("/dev/shm", os.W_OK) else None
        d = tempfile.mkdtemp(prefix="pdpmc-", dir=base)
        _scratch_root = (os.getpid(), d)
        atexit.register(_cleanup, os.getpid(), d)
    return _scratch_root[1]


def _cleanup(pid, d):
    if os.getpid() == pid:
        shutil.rmtree(d, ignore_errors=True)


def cleanup_now():
    global _scratch_root
    if _scratch_root is not None and _scratch_root[0] == os.getpid():
        shutil.rmtree(_scratch_root[1], ignore_errors=True)
        _scratch_root = None


_case_counter = 0


def fresh_dir():
    global _case_counter
    _case_counter += 1
    d = os.path.join(scratch_root(), "c%d" % _case_counter)
    os.mkdir(d)
    return d


def write_tree(root, tree):
    for rel, content in tree.items():
        p = os.path.join(root, rel)
        os.makedirs(os.path.dirname(p), exist_ok=True)
        if isinstance(content, str):
            with open(p, "w", encoding="utf-8") as f:
                f.write(content)
        else:
            with open(p, "wb") as f:
                f.write(content)


class Recorder:
    """Report handler that records (severity, kind, spans)."""

    def __init__(self, abort_at=None):
        self.reports = []
        self.abort_at = abort_at

    def __call__(self, priority, identifier, *spans):
        sev = "warning" if priority is reports.warning else ("critical" if priority is reports.critical else "error")
        sp = []
        for s in spans:
            a, b = s[0], s[1]
            # repr() of a position is what the bare report format prints: the implementation's own line:column
            sp.append((a.filename, a.pos, b.filename, b.pos, len(a.code), a.code, repr(a), repr(b)))
        self.reports.append((sev, identifier, sp))
        if self.abort_at is not None and len(self.reports) == self.abort_at:
            raise AbortRun()

    @property
    def n_errors(self):
        return sum(1 for r in self.reports if r[0] != "warning")


class AbortRun(Exception):
    """Raised by a report handler at the j-th report (C18 abort points)."""


def linecol(code, pos):
    line = code.count("\n", 0, pos)
    start = code.rfind("\n", 0, pos) + 1
    col = (pos - start) + code.count("\t", start, pos) * 3
    return line + 1, col + 1


class Outcome:
    __slots__ = ("status", "base", "code", "reports", "exc", "site", "trace", "comp", "tb", "dirty", "parsed")

    def __init__(self):
        self.status = None
        self.base = None
        self.code = None
        self.reports = []
        self.exc = None
        self.site = None
        self.trace = None
        self.comp = None
        self.tb = None
        self.dirty = None
        self.parsed = None

    @property
    def ok(self):
        return self.status == "ok"

    def kinds(self, sev=("error", "critical")):
        return sorted(r[1] for r in self.reports if r[0] in sev)

    def error_kinds(self):
        return self.kinds()

    def warning_kinds(self):
        return self.kinds(("warning",))

    def cls(self):
        """Coarse outcome class (for counting distinct observed outcomes)."""
        if self.status == "crash":
            return "crash:%s@%s" % (self.exc, self.site)
        if self.status in ("fail", "silent-fail"):
            return "%s:%s" % (self.status, ",".join(sorted(set(self.error_kinds()))))
        return self.status

    def key(self):
        """Canonical comparable form: status, base, bytes, error kinds (multiset)."""
        return (self.status, self.base, self.code, tuple(self.error_kinds()), self.exc, self.site)

    def positions(self):
        """(severity, kind, ((file, line, col, file, line, col), ...)) as rendered by the implementation (file:line:col)"""
        out = []
        for sev, kind, spans in self.reports:
            row = []
            for s in spans:
                fa, la, ca = s[6].rsplit(":", 2)
                fb, lb, cb = s[7].rsplit(":", 2)
                row.append((fa, int(la), int(ca), fb, int(lb), int(cb)))
            out.append((sev, kind, tuple(row)))
        return out

    def brief(self):
        d = {"status": self.status}
        if self.base is not None:
            d["base"] = self.base
        if self.code is not None:
            d["bytes"] = self.code.hex() if len(self.code) <= 64 else self.code[:64].hex() + "...(%d bytes)" % len(self.code)
        ek = self.error_kinds()
        if ek:
            d["errors"] = ek
        if self.exc:
            d["exception"] = "%s@%s" % (self.exc, self.site)
        return d


def crash_site(tb):
    site = None
    for fs in traceback.extract_tb(tb):
        fn = os.path.realpath(fs.filename)
        if fn.startswith(PKG_DIR):
            site = "%s:%s" % (fn[len(PKG_DIR):], fs.name)
    return site or "outside"


def module_state_dirty():
    probs = []
    if deferred.try_compute.depth != 0:
        probs.append("try_compute.depth=%r" % deferred.try_compute.depth)
    if deferred.Awaiting.awaiting_stack:
        probs.append("awaiting_stack=%d" % len(deferred.Awaiting.awaiting_stack))
    if reports.handle_reports.handlers_stack:
        probs.append("handlers_stack=%d" % len(reports.handle_reports.handlers_stack))
    return probs


def reset_module_state():
    deferred.try_compute.depth = 0
    for d in deferred.Awaiting.awaiting_stack:
        d.is_awaiting = False
    del deferred.Awaiting.awaiting_stack[:]
    del reports.handle_reports.handlers_stack[:]


def prepare_tree(tree):
    """writes the tree into a fresh directory that several assemble(..., root=...) calls share (the same path names in every run,
    as when one process assembles the same project again); the caller removes it with shutil.rmtree"""
    root = fresh_dir()
    write_tree(root, tree)
    return root


def assemble(files, charset="bk", tree=None, keep=False, abort_at=None, reset=True, root=None):
    """files: list of (relative name, text) linked in that order; tree: extra files on
    disk (relative name -> str/bytes) for .include / insert_file.  Returns Outcome."""
    out = Outcome()
    rec = Recorder(abort_at)
    if root is not None:
        tree = None   # the caller's directory (prepare_tree) is used as it is and left in place
    elif tree:
        root = fresh_dir()
        write_tree(root, tree)
    else:
        root = os.path.join(scratch_root(), "m")
    comp = None
    parsed = None
    try:
        try:
            with reports.handle_reports(rec):
                parsed = [parser.parse(os.path.join(root, name), text) for name, text in files]
                comp = Compiler(output_charset=charset)
                base, code = comp.compile_and_link_files(parsed)
            out.status, out.base, out.code = "ok", base, bytes(code)
        except reports.UnrecoverableError:
            out.status = "fail" if rec.n_errors else "silent-fail"
        except AbortRun:
            out.status = "aborted"
        except VerifHang:
            out.status = "hang"
        except MemoryError:
            out.status = "resource"
        except Exception as ex:  # what main_cli reports as an internal compiler error
            out.status = "crash"
            out.exc = type(ex).__name__
            out.site = crash_site(ex.__traceback__)
            out.tb = "".join(traceback.format_exception(type(ex), ex, ex.__traceback__)[-6:])
    finally:
        # ('keep' keeps the compiler objects for inspection, not the directory: millions of kept trees exhaust the inodes of /dev/shm)
        if tree:
            shutil.rmtree(root, ignore_errors=True)
    out.reports = rec.reports
    if keep:
        out.comp = comp
        out.parsed = parsed
    out.trace = getattr(comp, "_verif_trace", None) if keep else None
    if reset:
        d = module_state_dirty()
        if d:
            out.dirty = d
            reset_module_state()
    return out


def rel(path, root):
    return os.path.relpath(path, root) if path.startswith(root) else path


class CliOutcome:
    __slots__ = ("exit", "stdout", "stderr", "before", "after", "root", "internal_error")

    def created(self):
        return sorted(k for k in self.after if k not in self.before)

    def modified(self):
        return sorted(k for k in self.after if k in self.before and self.after[k] != self.before[k])

    def deleted(self):
        return sorted(k for k in self.before if k not in self.after)


def snapshot(root):
    snap = {}
    for dp, _dn, fn in os.walk(root):
        for f in fn:
            p = os.path.join(dp, f)
            try:
                with open(p, "rb") as fh:
                    data = fh.read()
                st = os.stat(p)
                snap[os.path.relpath(p, root)] = (len(data), hashlib.sha1(data).hexdigest(), st.st_mtime_ns)
            except OSError as ex:  # unreadable
                snap[os.path.relpath(p, root)] = ("unreadable", str(ex), 0)
    return snap


class _Stream(io.TextIOWrapper):
    pass


def cli(argv, tree, cwd=".", keep=False, stdin_text=""):
    """Run pdpy11._cli.main_cli() in-process with argv inside a fresh scratch tree."""
    from pdpy11 import _cli
    root = fresh_dir()
    write_tree(root, tree)
    out = CliOutcome()
    out.root = root
    out.before = snapshot(root)
    old = (sys.argv, sys.stdout, sys.stderr, sys.stdin, os.getcwd())
    so = io.TextIOWrapper(io.BytesIO(), encoding="utf-8", errors="replace", write_through=True)
    se = io.TextIOWrapper(io.BytesIO(), encoding="utf-8", errors="replace", write_through=True)
    try:
        os.chdir(os.path.join(root, cwd))
        sys.argv = ["pdpy11"] + list(argv)
        sys.stdout, sys.stderr, sys.stdin = so, se, io.StringIO(stdin_text)
        try:
            _cli.main_cli()
            out.exit = 0
        except SystemExit as ex:
            out.exit = ex.code if isinstance(ex.code, int) else (0 if ex.code is None else 1)
        except VerifHang:
            out.exit = "hang"
        except MemoryError:
            out.exit = "resource"
    finally:
        sys.argv, sys.stdout, sys.stderr, sys.stdin = old[:4]
        os.chdir(old[4])
    out.stdout = so.buffer.getvalue()
    out.stderr = se.buffer.getvalue().decode("utf-8", "replace")
    out.internal_error = "unexpected internal compiler error" in out.stderr
    out.after = snapshot(root)
    d = module_state_dirty()
    if d:
        reset_module_state()
    if not keep:
        shutil.rmtree(root, ignore_errors=True)
    return out


def read_file(root, relpath):
    with open(os.path.join(root, relpath), "rb") as f:
        return f.read()


def fresh_process(argv, cwd, env=None, timeout=120, stdin=b""):
    """python -m pdpy11 <argv> in a new process (reference for in-process driving)."""
    import subprocess
    e = dict(os.environ)
    e["PYTHONPATH"] = REPO
    e.pop("PDPY11_VERIF", None)
    if env:
        e.update(env)
    p = subprocess.run([sys.executable, "-m", "pdpy11"] + list(argv), cwd=cwd, env=e, input=stdin,
                       stdout=subprocess.PIPE, stderr=subprocess.PIPE, timeout=timeout)
    return p.returncode, p.stdout, p.stderr.decode("utf-8", "replace")
