#!/bin/bash
# usage: tools/verify_seed.sh <Cnn> <a|b|..> <seed-name>
# Confirms a sub-agent's seeded change in its scratch worktree /tmp/wt/<Cnn>: demo passes on the clean tree, pinned tests
# still pass with the change, demo fails with the change.  Then files it under /verif/seeded/<seed-name>/ (patch.diff,
# demo.py unchanged, notes.md, meta.json).  Later re-confirmation on a fresh worktree of /repo's HEAD: tools/run_demo.sh.
set -u
ID=$1; V=$2; NAME=$3
W=/tmp/wt/$ID; S=$W/_out/$V; D=/verif/seeded/$NAME
git -C $W checkout -q -- . ; git -C $W status --short | grep -v '^??' && { echo "worktree dirty"; exit 2; }
(cd $W && /venv/bin/python _out/$V/demo.py >/dev/null 2>&1); CLEAN=$?
git -C $W apply $S/patch.diff || { echo "patch does not apply"; exit 2; }
TESTS=$(cd $W && /venv/bin/python -m pytest -q -p no:cacheprovider --continue-on-collection-errors 2>&1 | tail -1)
(cd $W && /venv/bin/python _out/$V/demo.py >/dev/null 2>&1); MUT=$?
git -C $W checkout -q -- .
echo "$NAME: demo clean=$CLEAN mutated=$MUT tests: $TESTS"
if [ $CLEAN -ne 0 ] || [ $MUT -eq 0 ] || ! echo "$TESTS" | grep -q "180 passed, 2 errors"; then echo "NOT CONFIRMED"; exit 1; fi
mkdir -p $D
cp $S/patch.diff $D/patch.diff; cp $S/demo.py $D/demo.py; cp $S/notes.md $D/notes.md 2>/dev/null
HEAD=$(git -C $W log --format=%h -1)
cat > $D/meta.json <<EOT
{"name": "$NAME", "property": "$ID", "wave": ${WAVE:-3}, "origin": "independent sub-agent given only the property text, the list of earlier-wave ideas to avoid, and a scratch worktree",
 "written_against_repo_commit": "$HEAD",
 "confirmed": {"pinned_tests_with_change": "$TESTS", "demo_exit_clean_tree": $CLEAN, "demo_exit_with_change": $MUT,
               "how": "tools/verify_seed.sh $ID $V $NAME (the agent's scratch worktree, change reverted afterwards)"},
 "needs_to_manifest": "see notes.md", "detected_by": []}
EOT
echo "filed $D"
