#!/bin/bash
# usage: tools/run_demo.sh <seed-name> clean|patched
# Runs seeded/<seed>/demo.py in a fresh scratch worktree of /repo's HEAD created at the path the
# sub-agent wrote the demo for (/tmp/wt/<Cnn>), with or without the seed's patch; removes the worktree.
N=$1; MODE=$2; ID=$(python3 -c "import json;print(json.load(open('/verif/seeded/$N/meta.json'))['property'])")
W=/tmp/wt/$ID; mkdir -p /tmp/wt
# never destroy a sub-agent's unfiled deliverables
if [ -d "$W/_out/a" ] || [ -d "$W/_out/b" ]; then echo "refusing: $W holds unfiled agent output (_out/a|b); file it with tools/verify_seed.sh first" >&2; exit 5; fi
[ -e "$W" ] && { git -C /repo worktree remove --force "$W" 2>/dev/null; rm -rf "$W"; }
git -C /repo worktree add -q --detach "$W" HEAD || exit 3
if [ "$MODE" = patched ]; then (cd "$W" && git apply /verif/seeded/$N/patch.diff) || { git -C /repo worktree remove --force "$W"; echo NOAPPLY; exit 4; }; fi
if [ "$3" = tests ]; then (cd "$W" && /venv/bin/python -m pytest -q -p no:cacheprovider --continue-on-collection-errors 2>&1 | tail -1); fi
mkdir -p "$W/_out/x"; cp /verif/seeded/$N/demo.py "$W/_out/x/demo.py"; (cd "$W" && /venv/bin/python _out/x/demo.py >/dev/null 2>&1); RC=$?
git -C /repo worktree remove --force "$W"; rm -rf "$W"
exit $RC
