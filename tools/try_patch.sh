#!/bin/bash
# usage: tools/try_patch.sh <patch.diff> <Cnn> [tier]   -- dev loop: run one check against a scratch
# worktree of /repo with the patch applied (the registered commands always use /repo itself).
set -e
P=$(readlink -f "$1"); ID=$2; TIER=${3:-quick}
W=$(mktemp -d /dev/shm/mw-XXXXXX)
git -C /repo worktree add -q --detach "$W/r" HEAD
# carry uncommitted changes of /repo (e.g. a fix being tried) into the scratch tree
[ -n "${NOCARRY:-}" ] || git -C /repo diff HEAD | (cd "$W/r" && git apply --allow-empty 2>/dev/null || true)
(cd "$W/r" && git apply "$P")
mkdir -p "$W/out"
set +e
(cd /verif && PDPMC_REPO="$W/r" PDPMC_OUT="$W/out" PYTHONHASHSEED=0 /venv/bin/python -m pdpmc "$ID" --tier "$TIER") ; RC=$?
set -e
git -C /repo worktree remove --force "$W/r"; rm -rf "$W"
echo "exit=$RC"
exit $RC
