#!/usr/bin/env python3
"""Runs the registered quick checks against every seeded change, the way the brief prescribes: apply the change to /repo
(git apply), run the checks, undo it straight afterwards (git checkout -- .).  Writes seeded/MATRIX.json and updates each
seed's meta.json (detected_by).  usage: tools/seed_matrix.py [seed-name ...] [--checks C01,C02] [--all-checks]"""
import os, sys, json, subprocess, time
VERIF = os.path.dirname(os.path.dirname(os.path.abspath(__file__)))
SEEDED = os.path.join(VERIF, "seeded")
ALL = ["C%02d" % i for i in range(1, 20)]
# which checks are relevant to a seed besides its own property's
EXTRA = {"c01-b-sob-reach": ["C04"], "c02-a-repeat-step-once": ["C16"], "c02-b-link-offset-prev-only": ["C16"], "c16-a-repeat-step-once": ["C02"],
         "c16-b-link-offset-prev-only": ["C02"], "c03-a-rmul-const": ["C05"], "c03-b-wait-dict-coeffs": ["C09"], "c05-b-poly-const-unscaled": ["C03"],
         "c09-a-sub-sign-slip": ["C03", "C12"], "c09-b-nested-poly-unscaled": ["C03"], "c12-a-skip-closure-addr-param": ["C02"], "c08-b-lshift-on-deferred": ["C05"],
         "c10-a-caret-literal-sign": ["C05"], "c05-a-caret-r-short": ["C15"], "c15-b-caret-right-justified": ["C05"], "c14-b-ascii-shortcut": ["C06"],
         "c01-a-shared-operand-state": ["C04"], "c04-b-dot-shifted": ["C01"], "c17-a-expandtabs": [], "c18-a-depth-leak-no-finally": ["C08"],
         # second wave
         "c01-c-operand-encoding-memoised": ["C16", "C04"], "c02-c-const-term-unscaled": ["C05", "C03", "C04"], "c03-d-compiled-flag-in-block": ["C11"],
         "c04-c-const-term-unscaled": ["C05", "C03"], "c04-d-repeat-accumulated-step": ["C16", "C02"], "c05-c-caret-literal-sign": ["C10"], "c05-d-bracket-memoised": ["C16"],
         "c06-d-bk-translate-fastpath": ["C14"], "c08-d-skip-closure-inlined": ["C12", "C02"], "c09-c-coeff-overwritten": ["C04"], "c09-d-distance-fastpath": ["C04"],
         "c10-c-own-names-case": ["C11"], "c10-d-hoist-named-registers-only": ["C01"], "c11-d-compiled-flag-on-link-base": ["C03"], "c12-c-const-term-unscaled": ["C05", "C03"],
         "c13-c-include-parsed-under-relative-name": ["C17"], "c14-d-ascii-chunk-memo": ["C06"], "c15-c-angle-code-cached": ["C16"], "c15-d-caret-r-no-percent": ["C05"],
         "c16-c-bracket-hides-dot": ["C05"], "c16-d-once-path-not-normalised": ["C18"], "c18-c-parse-lru-cache": ["C08"], "c19-c-sections-per-run": [], "c06-c-ascii-size-hint-chars": ["C02"],
         # third wave
         "c11-f-extern-map-class": ["C18"], "c14-e-include-parse-cache": ["C18"], "c14-f-encoder-once": ["C18", "C05"], "c13-f-pulse-table-once": ["C18"], "c09-f-once-module-set": ["C18", "C16"],
         "c03-e-numeric-export-early": ["C11"], "c06-f-repeat-multiply": ["C16", "C02"], "c06-e-even-offset-parity": ["C02"], "c02-e-include-pending-size0": ["C16"], "c02-f-ascii-size-chars": ["C06"],
         "c08-f-wno-mutes-error": ["C07"], "c15-f-neg-rad50-literal": ["C05"], "c05-f-charlit-first-byte": ["C14"], "c12-f-include-presettle": ["C02"], "c10-f-push-fastpath": ["C01"],
         "c04-e-shared-stub-state": ["C01"], "c19-f-fileno-late": ["C11"], "c03-f-extern-all-forgotten": ["C11"], "c08-e-repeat-end-reraise": ["C16"], "c12-e-length-no-try": ["C16"],
         # fourth and fifth wave
         "c04-g-pc-first-operand": ["C01"], "c10-g-paren-memoised": ["C16", "C05"], "c08-g-rad50-code-bound": ["C15"], "c05-g-self-add-coefficient": ["C03", "C09"],
         "c02-g-concat-length-bytearray": ["C16"], "c07-g-inline-imm-bound": ["C01"], "c14-g-charlit-signed-byte": ["C05"],
         "c14-i-angle-chunk-through-codec": ["C06"], "c16-h-once-table-class-attr": ["C18"], "c02-h-rad50-pad-per-chunk": ["C15"]}


def sh(cmd, **kw):
    return subprocess.run(cmd, shell=True, stdout=subprocess.PIPE, stderr=subprocess.STDOUT, text=True, **kw)


def main():
    args = [a for a in sys.argv[1:] if not a.startswith("--")]
    allchecks = "--all-checks" in sys.argv
    seeds = args or sorted(d for d in os.listdir(SEEDED) if os.path.isdir(os.path.join(SEEDED, d)))
    assert sh("git -C /repo status --porcelain --untracked-files=no").stdout.strip() == "", "/repo has uncommitted changes"
    path = os.path.join(SEEDED, "MATRIX.json")
    matrix = json.load(open(path)) if os.path.exists(path) else {}
    head = sh("git -C /repo log --format=%h -1").stdout.strip()
    for s in seeds:
        meta_p = os.path.join(SEEDED, s, "meta.json")
        meta = json.load(open(meta_p))
        if meta.get("retired"):
            continue
        # the seed's own property first; sibling checks only when that one does not report it (or with --extra)
        checks = ALL if allchecks else [meta["property"]] + [c for c in EXTRA.get(s, []) if c != meta["property"]]
        a = sh("git -C /repo apply %s" % os.path.join(SEEDED, s, "patch.diff"))
        if a.returncode != 0:
            print(s, "PATCH DOES NOT APPLY", a.stdout[:200])
            continue
        row = {} if "--fresh" in sys.argv else matrix.get(s, {})
        try:
            for c in checks:
                t0 = time.time()
                p = sh("cd %s && PDPMC_OUT=/dev/shm/seedmatrix-out PDPMC_WORKERS=%s PYTHONHASHSEED=0 /venv/bin/python -m pdpmc %s --tier quick" % (VERIF, os.environ.get("MATRIX_WORKERS", "16"), c))
                viol = [l for l in p.stdout.splitlines() if l.startswith("VIOLATION")]
                sigs = [l.strip()[len("signature: "):] for l in p.stdout.splitlines() if l.strip().startswith("signature:")]
                row[c] = {"exit": p.returncode, "violations": len(viol), "signatures": sigs[:3], "wall_s": round(time.time() - t0, 1), "repo_head": head}
                print("%-34s %s exit=%d violations=%d %s" % (s, c, p.returncode, len(viol), (sigs[:1] or [""])[0][:70]), flush=True)
                if p.returncode == 1 and c == meta["property"] and not allchecks and "--extra" not in sys.argv:
                    break
        finally:
            sh("git -C /repo checkout -- .")
        matrix[s] = row
        meta["detected_by"] = sorted(c for c, v in row.items() if v["exit"] == 1)
        meta["checked"] = {c: v["exit"] for c, v in row.items()}
        json.dump(meta, open(meta_p, "w"), indent=1)
        json.dump(matrix, open(path, "w"), indent=1, sort_keys=True)
    sh("rm -rf /dev/shm/seedmatrix-out")


if __name__ == "__main__":
    main()
