HOOK_COMMITS = ["425bd3a", "b4f68b1"]
NOT_YET = {}
NOTES = ("All checks explore the real implementation in /repo's working tree (no copy, no build step). "
         "Known genuine defects are listed in /verif/known_findings.json and reported as KNOWN-FINDING lines.")
CHECKS = {
 "C15": ("exploration", "exhaustive enumeration of the finite input space on the real code, against an independent RADIX-50 decoder",
         "Complete enumeration (exhaustive: true) of every character triple for '.rad50' and '^R', both letter cases, every length 0-12, every <n> code -1..64 and every non-alphabet ASCII character; each emitted word is unpacked by an independent decoder. The space the property quantifies over is finite and is covered completely, so exploration with exhaustive=true is the right level.",
         "Trusted: pdpmc/ref/rad50.py (checked against known-answer vectors by setup_cmd); statements are batched 500 per program, any deviation is bisected to the single statement.",
         "DESIGN.md 5/C15"),
}
CHECKS["C14"] = ("exploration", "exhaustive enumeration of all bytes and all Unicode code points on the real codec and assembler",
   "Complete enumeration (exhaustive: true): all 256 byte values, all 1,114,112 code points through the codec, every encodable/unencodable pattern up to length 4, and at assembly level every table character through .ascii/.asciz/'c/\"cc and every BMP code point outside the table (must fail with an error). The quantifier's space is finite and covered completely.",
   "Trusted: Python's koi8_r codec as the KOI8-R source, chr() as ASCII; the pseudo-graphics block is only checked for bijectivity, as the property states.",
   "DESIGN.md 5/C14")
CHECKS["C01"] = ("exploration", "exhaustive enumeration of mnemonic x operand-form products on the real assembler, decoded by an independent PDP-11 decoder",
   "Every one of the 252 mnemonics with the complete operand-form product of its class (quick: 12x12 syntactic forms x 8 register pairings x 2 values for double-operand instructions, everything else complete; thorough: full 108x108 form product at three link bases) is assembled and the emitted words are decoded by an independent decoder: same operation, modes, registers, operand order, operand values, exact length. A finite product covered completely is the strongest statement available for a 252-row table.",
   "Trusted: pdpmc/ref/isa.py (table written from the handbooks, DESIGN.md Appendix A; handbook vectors in selftest). Statements are batched ~400 per program; any deviation re-runs each statement alone.",
   "DESIGN.md 5/C01")
CHECKS["C04"] = ("exploration", "exhaustive enumeration of distances x spellings x placements on the real assembler, against reference encodings and an independent decoder",
   "Complete product: every branch mnemonic x every byte distance -300..+300 x 8 target spellings, sob x 8 registers x every distance -140..+6 x the same spellings (accept iff even and within reach, then exact field; otherwise the run must fail with an error), and PC-relative operands in 7 placements x 13 targets x 4 link bases (incl. wrap-around) whose effective address is recomputed by the independent decoder. Both limits are bracketed by complete enumeration, which is what the property's boundary claims need.",
   "Trusted: pdpmc/ref/isa.py opcodes/decoder. Which of the two error kinds is reported is not demanded.",
   "DESIGN.md 5/C04")
CHECKS["C05"] = ("exploration", "exhaustive enumeration of expression trees (<= 3 infix operators, all shapes/bracketings/styles, prefix positions, spines to depth 6, literal spellings) on the real assembler against an independent evaluator",
   "Everything the operator-precedence loop can distinguish is enumerated completely: all 1884 infix sequences of length <= 3 x all tree shapes x full and minimal bracketing x 3 bracket styles x 3 leaf tuples; every prefix operator in every grammatical position; depth-6 spines for all operator pairs; every literal spelling x boundary values; 8/9, /0 and negative-shift rejection; each under six leaf regimes (constants, symbols before/after, address-valued with the base settled first/last/defaulted, symbols assigned address expressions before their labels exist). Values are read back through .dword or 16-bit slices. 'All trees to depth 6' is unbounded; the bound actually completed is stated in the evidence.",
   "Trusted: pdpmc/ref/expr.py (documented semantics, vectors in selftest). Trees whose reference value exceeds 2**8192 (or would after an error substitute) are not generated (resource guard, see DESIGN).",
   "DESIGN.md 5/C05")
CHECKS["C06"] = ("exploration", "exhaustive enumeration of boundary values x positions x parities, characters x charsets x quotes, escapes, counts and alignment residues on the real assembler",
   "Complete product: 9 boundary values in every position of lists of 1-8 operands (all pairs for length 2) for .byte/.word/implicit lists/.dword at both address parities, spelled as constants and as later-defined symbols; every character of bk/koi8-r/latin-1/cp866 (and the utf-8 BMP: sampled in quick, complete in thorough) under each quote, every escape incl. all 256 \\xHH, <n> for -1..256, all short mixed strings; .blkb/.blkw counts; .even/.odd at both parities; .align for every modulus 1-64 at every residue and two bases. Accept/reject boundaries are bracketed completely; refused inputs must fail with an error.",
   "Trusted: Python codecs as charset definitions (ASCII/KOI8-R for bk). Content of operand-less directives is not demanded.",
   "DESIGN.md 5/C06")
CHECKS["C02"] = ("model_checking", "explicit-state breadth-first search over statement sequences (operation sequences) on the real assembler, with a hook trace invariant and a reference layout oracle on every explored program",
   "All statement sequences up to depth 3 (quick) / 4 (thorough) over a 35-statement alphabet that contains every size path (fixed, known-later, address-dependent, skips, repeats with varying iteration sizes, inserted files, nested includes), each as a fresh run under up to 7 link regimes (base defaulted, set first at even/odd/low/high addresses, set last), every ordered 1-3 tuple of a 6-file alphabet, and the 21 practice programs. On every error-free run the model-free hook invariants (contiguity, bytes-at-address, image length, label = address of following bytes) are checked and the image incl. a label probe table is compared with the reference layout. The bound (depth, alphabet, regimes) is completed exhaustively; nothing is sampled.",
   "Trusted: the 4-line add-only hook (MANIFEST.hooks), pdpmc/alphabet.py reference sizes. Programs that report errors (e.g. word data at an odd address) are outside the property's premise: counted, not judged.",
   "DESIGN.md 5/C02")
