HOOK_COMMITS = ["425bd3a", "b4f68b1"]
NOT_YET = {}
NOTES = ("All checks explore the real implementation in /repo's working tree (no copy, no build step). "
         "Known genuine defects are listed in /verif/known_findings.json and reported as KNOWN-FINDING lines.")
CHECKS = {
 "C15": ("exploration", "exhaustive enumeration of the finite input space on the real code, against an independent RADIX-50 decoder",
         "Complete enumeration (exhaustive: true) of every character triple for '.rad50' and '^R', both letter cases, every length 0-12, every <n> code -1..64 and every non-alphabet ASCII character; each emitted word is unpacked by an independent decoder. The space the property quantifies over is finite and is covered completely, so exploration with exhaustive=true is the right level.",
         "Trusted: pdpmc/ref/rad50.py (checked against known-answer vectors by setup_cmd); statements are batched 500 per program, any deviation is bisected to the single statement.",
         "DESIGN.md 5/C15"),
}
