#!/venv/bin/python
"""Writes /tmp/wt/<Cnn>.property.txt and /tmp/wt/<Cnn>.prompt.txt for a wave of seeding sub-agents
(tools/seed_prompt.tmpl + the property text + the ideas of earlier waves to avoid) and creates the agents'
scratch worktrees /tmp/wt/<Cnn>.  usage: tools/make_prompts.py <wave-number> [Cnn ...]"""
import json, os, glob, subprocess, sys
wave = int(sys.argv[1]); only = sys.argv[2:]
props = {json.loads(l)['id']: json.loads(l) for l in open('/verif/properties.jsonl')}
tmpl = open('/verif/tools/seed_prompt.tmpl').read()
os.makedirs('/tmp/wt', exist_ok=True)
FOCUS = {
 5: "For this round produce only ONE change (deliver it as `a`; ignore what is said about `b`), and time-box yourself to about 20 minutes. "
    "Earlier rounds concentrated on arithmetic slips and on values cached on tokens. This time look elsewhere: (1) a condition that distinguishes two "
    "statement or operand KINDS and now puts one rare kind on the wrong side (an `isinstance` list, a set of directive names, a mode number, a file-format name, "
    "a priority or warning class); (2) an ORDER of two steps swapped or merged (check before/after normalisation, emit before/after a report, advance before/after use, "
    "sort before/after de-duplication) that only matters for a particular shape of input; (3) something that depends on the POSITION of a statement: first or last "
    "statement of a file, a file without a final newline, an empty file, an empty block, the last of several inputs or outputs, a statement directly after a label on the "
    "same line; (4) the behaviour with TWO OR MORE of something where one is the common case (two outputs, two includes of the same file, two linked files that both "
    "export, two errors in one statement, two `-W` options, nested blocks). Avoid everything that every ordinary program would expose at once. "
    "Note that the source tree has evolved since the earlier rounds (about 60 genuine defects were repaired), so read the current code.\n",
 4: "For this round produce only ONE change (deliver it as `a`; ignore what is said about `b`), and time-box yourself to about 25 minutes. "
    "Look for a change of one of these kinds: (1) two cooperating sites that each look fine alone (a producer and a consumer of a flag, a size hint and the bytes "
    "really emitted, a helper and one of its several callers); (2) a slip that shows only at a boundary of the 16-bit arithmetic (wrap at 0o177777/0o200000, "
    "sign of a byte, an odd address, the last byte of the address space, an empty operand list, a zero count); (3) a path that is only taken when a value is "
    "NOT yet known on the first visit and is settled later (forward reference, late `.link`, symbol defined in a file linked later), or only when it IS known at once; "
    "(4) the error/warning plumbing and the command line (several inputs, several outputs, `--lst`, `--charset`, `-W` options, `--report-format`, project/directory mode, "
    "output names derived from input names). Avoid everything that every ordinary program would expose at once. "
    "Note that the source tree has evolved since the earlier rounds (about 60 genuine defects were repaired), so read the current code.\n",
}
FOCUS[6] = FOCUS[5]; FOCUS[7] = FOCUS[5]
for pid, p in props.items():
    if only and pid not in only: continue
    txt = f"""Property {p['id']}: {p['title']}

Statement: {p['statement']}

Quantified over: {p['quantifier']['text']}

Where it lives: files {', '.join(p['anchors']['files'])}; mechanisms: {'; '.join(m['name']+' ('+m['where']+')' for m in p['anchors']['mechanism'])}
"""
    open(f"/tmp/wt/{pid}.property.txt", "w").write(txt)
    avoid = []
    for d in sorted(glob.glob('/verif/seeded/%s-*' % pid.lower())):
        try: notes = open(os.path.join(d, 'notes.md')).read().strip().split('\n')
        except OSError: continue
        first = [l for l in notes if l.strip()][:3]
        avoid.append("- " + " ".join(x.strip('# ').strip() for x in first)[:300])
    extra = (f"\n\nIMPORTANT - this is round {wave}. Changes along the following lines already exist; produce a change on a DIFFERENT mechanism/code site "
             "(do not repeat or trivially vary these):\n" + "\n".join(avoid) + "\n\n" + FOCUS[wave])
    open(f"/tmp/wt/{pid}.prompt.txt", "w").write(tmpl.replace('@ID@', pid) + extra)
    w = f"/tmp/wt/{pid}"
    if not os.path.exists(w):
        subprocess.check_call(["git", "-C", "/repo", "worktree", "add", "-q", "--detach", w, "HEAD"])
print("ok", len(only) or len(props))
