#!/venv/bin/python
"""Prints the 'measured' table of DESIGN.md section 11 from the evidence files (quick tier) and, if given, a sweep log of
thorough runs (lines 'Cnn thorough: N cases, E executions, D distinct non-trivial, K outcome classes, ..., T s')."""
import json, re, sys, os

V = os.path.dirname(os.path.dirname(os.path.abspath(__file__)))


def sp(n):
    return format(n, ",").replace(",", " ")


thor = {}
if len(sys.argv) > 1:
    for l in open(sys.argv[1]):
        m = re.match(r"(C\d\d) thorough: (\d+) cases, (\d+) executions, (\d+) distinct non-trivial, (\d+) outcome classes.* ([\d.]+)s$", l.strip())
        if m:
            thor[m.group(1)] = tuple(m.groups()[1:])
print("| property | level | cases | executions | distinct non-trivial | outcome classes | wall | thorough: executions | thorough: wall |")
print("|---|---|---|---|---|---|---|---|---|")
tot = 0
for i in range(1, 20):
    pid = "C%02d" % i
    e = json.load(open(os.path.join(V, "evidence", pid + ".json")))
    c = e["coverage"]
    t = thor.get(pid)
    tot += e["wall_s"]
    print("| %s | %s | %s | %s | %s | %d | %d s | %s | %s |" % (
        pid, e["level"].replace("_", " "), sp(c["cases_enumerated"]), sp(c["evaluations"]), sp(c["distinct_nontrivial"]),
        c["distinct_observed_outcomes"], round(e["wall_s"]), sp(int(t[1])) if t else "-", ("%d s" % round(float(t[4]))) if t else "-"))
print("\ntotal quick wall: %.0f s" % tot)
