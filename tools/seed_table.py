#!/venv/bin/python
"""Prints the 'full list' table of DESIGN.md section 16 from seeded/*/meta.json, notes.md and MATRIX.json."""
import json, os, glob

V = os.path.dirname(os.path.dirname(os.path.abspath(__file__)))
print("| seed | property | wave | change | reported by |")
print("|---|---|---|---|---|")
n = own = 0
for d in sorted(glob.glob(os.path.join(V, "seeded", "c*"))):
    m = json.load(open(os.path.join(d, "meta.json")))
    name = os.path.basename(d)
    first = ""
    np_ = os.path.join(d, "notes.md")
    if os.path.exists(np_):
        for l in open(np_, encoding="utf-8"):
            l = l.strip().lstrip("# ").strip()
            if l:
                first = l
                break
    first = first.replace("|", "/")[:110]
    wave = m.get("wave", 1 if name[4] in "ab" else 2)
    if m.get("retired"):
        rep = "retired"
    else:
        rep = ", ".join(m.get("detected_by") or []) or "**none**"
        n += 1
        own += m["property"] in (m.get("detected_by") or [])
    print("| %s | %s | %s | %s | %s |" % (name, m["property"], wave, first, rep))
print("\n%d seeds in the matrix, %d reported by the check of their own property" % (n, own))
