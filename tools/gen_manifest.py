#!/usr/bin/env python3
"""Regenerates /verif/MANIFEST.json from the table below (kept valid at all times)."""
import json, os, sys
HERE = os.path.dirname(os.path.dirname(os.path.abspath(__file__)))
PY = "PYTHONHASHSEED=0 /venv/bin/python -m pdpmc"

CHECKS = {
    # id: (category, technique, text, note, design section)
}
exec(open(os.path.join(HERE, "tools", "manifest_table.py")).read())

props = [json.loads(l) for l in open(os.path.join(HERE, "properties.jsonl"))]
checks, na = [], []
for p in props:
    pid = p["id"]
    if pid in CHECKS and os.path.exists(os.path.join(HERE, "pdpmc", "props", pid.lower() + ".py")):
        cat, tech, text, note, ref = CHECKS[pid]
        # the property module's own RULE and bounds are the current statement of what is explored (the table's text is the
        # summary it was first written with and may lag behind by a family or a count)
        sys.path.insert(0, HERE)
        import importlib
        mod = importlib.import_module("pdpmc.props." + pid.lower())
        text = "%s Bound, quick tier: %s. Bound, thorough tier: %s." % (mod.RULE, mod.bound("quick"), mod.bound("thorough"))
        if getattr(mod, "ASSUMPTIONS", None):
            note = note + " Assumptions of the check: " + "; ".join(mod.ASSUMPTIONS) + "."
        checks.append({
            "property_id": pid,
            "quick_cmd": "%s %s --tier quick" % (PY, pid),
            "thorough_cmd": "%s %s --tier thorough" % (PY, pid),
            "evidence_file": "/verif/evidence/%s.json" % pid,
            "replay_cmd_template": "%s %s --replay {path}" % (PY, pid),
            "engine": "pdpmc",
            "level_claimed": {"category": cat, "text": text, "design_ref": ref},
            "level_note": note,
            "technique": tech,
        })
    else:
        na.append({"property_id": pid, "reason": NOT_YET.get(pid, "check not built yet in this tree; planned in DESIGN.md section 5 as a bounded-exhaustive exploration")})
m = {
    "version": 1,
    "setup_cmd": "cd /verif && PYTHONHASHSEED=0 /venv/bin/python -m pdpmc selftest",
    "hooks": {
        "guard": "PDPY11_VERIF",
        "enable": "environment variable PDPY11_VERIF=1 (set by pdpmc/driver.py before importing /repo/pdpy11; pure Python, no build step)",
        "baseline_off_cmd": "cd /repo && env -u PDPY11_VERIF /venv/bin/python -m pytest -ra -q -p no:cacheprovider --timeout=900 --continue-on-collection-errors",
        "source_commits": HOOK_COMMITS,
        "add_only": True,
    },
    "engines": [{
        "name": "pdpmc", "path": "/verif/pdpmc",
        "serves_properties": [c["property_id"] for c in checks],
        "kind_free_text": "hand-written bounded-exhaustive / explicit-state explorer in Python that drives the real pdpy11 code in-process (16 worker processes), with independent reference models under pdpmc/ref",
    }],
    "checks": checks,
    "not_applicable": na,
    "notes": NOTES,
}
json.dump(m, open(os.path.join(HERE, "MANIFEST.json"), "w"), indent=1)
print("MANIFEST.json: %d checks, %d not claimed" % (len(checks), len(na)))
