"""'-o --' (an output file called '--') ends in the internal-compiler-error path."""
import os, shutil, subprocess, sys
sys.path.insert(0, "/tmp/wt/G13")
import pdpy11
assert pdpy11.__file__.startswith("/tmp/wt/G13/"), pdpy11.__file__
d = "/tmp/wt/G13/_scratch/out4"
shutil.rmtree(d, ignore_errors=True); os.makedirs(d)
open(d + "/p.mac", "w").write("mov r1, r1\n")
env = dict(os.environ, PYTHONPATH="/tmp/wt/G13")
bad = []
for argv in (["p.mac", "-o--"], ["p.mac", "-o--", "--report-format", "bare"]):
    p = subprocess.run([sys.executable, "-m", "pdpy11"] + argv, cwd=d, env=env, capture_output=True)
    err = p.stderr.decode()
    print(argv, "-> exit status", p.returncode)
    print("   " + "\n   ".join(err.strip().splitlines()[-3:]))
    if "Traceback" in err:
        bad.append("%s: Python traceback (%s)" % (argv, err.strip().splitlines()[-1]))
    elif p.returncode == 0 and open(d + "/--", "rb").read() != b"\x41\x10":
        bad.append("%s: file '--' does not hold the raw image" % argv)
    elif p.returncode not in (0, 1, 2):
        bad.append("%s: exit status %d" % (argv, p.returncode))
if bad:
    print("DEFECT:")
    for b in bad: print("  " + b)
    sys.exit(1)
print("ok: '-o--' either wrote the file '--' or was refused with a proper usage/IO message")
