"""make_raw without an argument, in a source whose name does not end in .mac,
names the source file itself as output and destroys it."""
import os, shutil, subprocess, sys
sys.path.insert(0, "/tmp/wt/G13")
import pdpy11
assert pdpy11.__file__.startswith("/tmp/wt/G13/"), pdpy11.__file__

d = "/tmp/wt/G13/_scratch/out1"
shutil.rmtree(d, ignore_errors=True)
os.makedirs(d)
env = dict(os.environ, PYTHONPATH="/tmp/wt/G13")
bad = []

# (a) main source 'prog.s'
src = "mov r1, r1\nmake_raw\n"
open(d + "/prog.s", "w").write(src)
p = subprocess.run([sys.executable, "-m", "pdpy11", "prog.s"], cwd=d, env=env, capture_output=True)
after = open(d + "/prog.s", "rb").read()
print("(a) exit status", p.returncode, "| prog.s now holds", after)
if after != src.encode():
    bad.append("(a) the source file prog.s was overwritten with the raw image")

# (b) an included file 'defs.inc' that carries the directive
main = 'mov r1, r1\n.include "defs.inc"\n'
inc = "nop\nmake_raw\n"
open(d + "/main.mac", "w").write(main)
open(d + "/defs.inc", "w").write(inc)
p = subprocess.run([sys.executable, "-m", "pdpy11", "main.mac"], cwd=d, env=env, capture_output=True)
after = open(d + "/defs.inc", "rb").read()
print("(b) exit status", p.returncode, "| defs.inc now holds", after)
if after != inc.encode():
    bad.append("(b) the included source defs.inc was overwritten with the raw image")

if bad:
    print("DEFECT: an input file was used as the default output path of make_raw:")
    for b in bad:
        print("  " + b)
    sys.exit(1)
print("ok: no source file was overwritten")
