"""A directive path is collapsed lexically (os.path.normpath) before it is opened, so
'link/../out.bin' with 'link' a symbolic link to a directory is written into the wrong
directory - and 'nosuch/../out.bin' is written although the named path does not exist.
The same string given to -o is passed to the OS unchanged."""
import os, shutil, subprocess, sys
sys.path.insert(0, "/tmp/wt/G13")
import pdpy11
assert pdpy11.__file__.startswith("/tmp/wt/G13/"), pdpy11.__file__

d = "/tmp/wt/G13/_scratch/out2"
shutil.rmtree(d, ignore_errors=True)
os.makedirs(d + "/proj"); os.makedirs(d + "/builds/v1")
os.symlink(d + "/builds/v1", d + "/proj/cur")       # proj/cur -> builds/v1
open(d + "/proj/p.mac", "w").write("mov r1, r1\nmake_bin 'cur/../out.bin'\n")
env = dict(os.environ, PYTHONPATH="/tmp/wt/G13")
p = subprocess.run([sys.executable, "-m", "pdpy11", "p.mac", "-o", "cur/../viaopt.bin"], cwd=d + "/proj", env=env, capture_output=True)
print("exit status", p.returncode)
print(p.stderr.decode().strip())

# What the operating system means by 'cur/../out.bin' seen from proj/:
os_target = os.path.realpath(d + "/proj/cur/..") + "/out.bin"        # .../builds/out.bin
wrong = d + "/proj/out.bin"
print("path named by the directive resolves (OS rules) to:", os_target)
print("exists there:", os.path.exists(os_target), "| exists in proj/:", os.path.exists(wrong))
print("-o 'cur/../viaopt.bin' landed in builds/:", os.path.exists(d + "/builds/viaopt.bin"))

bad = []
if not os.path.exists(os_target) or os.path.exists(wrong):
    bad.append("make_bin 'cur/../out.bin' was written to proj/out.bin, not to the path it names (builds/out.bin)")

# second symptom: a path through a directory that does not exist is accepted
open(d + "/proj/q.mac", "w").write("mov r1, r1\nmake_bin 'nosuch/../q.bin'\n")
p = subprocess.run([sys.executable, "-m", "pdpy11", "q.mac"], cwd=d + "/proj", env=env, capture_output=True)
print("nosuch/../q.bin: exit status", p.returncode, "| proj/q.bin exists:", os.path.exists(d + "/proj/q.bin"))
if p.returncode == 0:
    bad.append("make_bin 'nosuch/../q.bin' succeeded although open('nosuch/../q.bin') fails with ENOENT")

if bad:
    print("DEFECT:")
    for b in bad: print("  " + b)
    sys.exit(1)
print("ok")
