"""When the image is sent to standard output (-o - / -o -.bin) and the write fails, the
assembler does not report "Could not write ..." as it does for files: the OSError escapes
into the 'unexpected internal compiler error' path (or, if Python buffers the bytes, is only
noticed by the interpreter at shutdown: 'Exception ignored ...', exit status 120)."""
import os, shutil, subprocess, sys
sys.path.insert(0, "/tmp/wt/G13")
import pdpy11
assert pdpy11.__file__.startswith("/tmp/wt/G13/"), pdpy11.__file__

if not os.path.exists("/dev/full"):
    print("/dev/full is not available here; cannot demonstrate"); sys.exit(0)
d = "/tmp/wt/G13/_scratch/out3"
shutil.rmtree(d, ignore_errors=True); os.makedirs(d)
open(d + "/p.mac", "w").write("mov r1, r1\n")
bad = []
for label, extra_env in (("unbuffered stdout (python -u / PYTHONUNBUFFERED=1)", {"PYTHONUNBUFFERED": "1"}), ("default buffering", {})):
    env = {k: v for k, v in os.environ.items() if k != "PYTHONUNBUFFERED"}
    env.update(PYTHONPATH="/tmp/wt/G13", **extra_env)
    with open("/dev/full", "wb") as full:
        p = subprocess.run([sys.executable, "-m", "pdpy11", "p.mac", "-o-.bin"], cwd=d, env=env, stdout=full, stderr=subprocess.PIPE)
    err = p.stderr.decode()
    print("---", label, ": exit status", p.returncode)
    print("\n".join(err.strip().splitlines()[-4:]))
    if "unexpected internal compiler error" in err:
        bad.append(label + ": internal compiler error + traceback instead of an I/O diagnostic")
    elif p.returncode != 1 or "Could not write" not in err:
        bad.append(label + ": exit status %d, no 'Could not write' diagnostic" % p.returncode)
# reference: the same failure for a named file is reported properly
env = dict(os.environ, PYTHONPATH="/tmp/wt/G13")
p = subprocess.run([sys.executable, "-m", "pdpy11", "p.mac", "-o", "/dev/full"], cwd=d, env=env, capture_output=True)
print("--- reference, -o /dev/full: exit status", p.returncode, "|", p.stderr.decode().strip().replace("\n", " "))
if bad:
    print("DEFECT:")
    for b in bad: print("  " + b)
    sys.exit(1)
print("ok")
