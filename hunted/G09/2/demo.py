#!/usr/bin/env python
"""C09 relocation law: moving the link base must change every absolute address word by exactly
the difference of the bases (mod 2**16, a word has 16 bits) and nothing else.  When the program
wraps through 0o177777, every absolute reference to a label that lies at/after 0o200000 is
refused ("does not fit in 16 bits") instead of holding the wrapped address."""
import sys
sys.path.insert(0, "/tmp/wt/G09")
import pdpy11
assert pdpy11.__file__.startswith("/tmp/wt/G09/"), pdpy11.__file__
from pdpy11 import parser, reports, bk_encoding  # noqa: F401
from pdpy11.compiler import Compiler


def assemble(source):
    msgs = []

    def handler(priority, identifier, *spans):
        msgs.append((priority.raw_text, identifier, spans[0][2].splitlines()[0] if spans else ""))
    try:
        with reports.handle_reports(handler):
            files = [parser.parse("/tmp/wt/G09/_scratch/demo2.mac", source)]
            base, code = Compiler().compile_and_link_files(files)
        return base, bytes(code), msgs
    except reports.UnrecoverableError:
        return None, None, msgs


def w(code, i):
    return code[i] | (code[i + 1] << 8)


# {ABS} is one statement with exactly one absolute address word (at byte offset ABSOFF of the image)
BODY = """
L0:     br      L1
        nop
L1:     mov     L0, r0
        {ABS}
L2:     br      L0
"""
CASES = [  # statement, offset of its absolute word in the image (L0=+0, L1=+4, statement at +10)
    (".word L2", 8), ("mov #L2, r1", 10), ("mov @#L1, r1", 10), ("jmp @#L2", 10),
    ("mov L2(r3), r1", 10), ("clr @L1(r3)", 10), ("L2, 5", 8),
]
B0 = 0o1000
failures = 0
for stmt, absoff in CASES:
    _, ref, m0 = assemble(f" .link {B0:o}\n" + BODY.replace("{ABS}", stmt))
    assert ref is not None and not [m for m in m0 if m[0] != "Warning"], (stmt, m0)
    for base in [0o40000, 0o177760, 0o177772, 0o177776]:
        expected = bytearray(ref)
        v = (w(ref, absoff) + base - B0) & 0xFFFF          # the one absolute word moves by the delta
        expected[absoff:absoff + 2] = v.to_bytes(2, "little")
        b, code, msgs = assemble(f" .link {base:o}\n" + BODY.replace("{ABS}", stmt))
        errors = [m for m in msgs if m[0] != "Warning"]
        ok = (b == base and code == bytes(expected) and not errors)
        if not ok:
            failures += 1
        print(f"{stmt:16} base {base:06o}: {'ok' if ok else 'WRONG'} "
              f"expected word {v:06o}; got {('%06o' % w(code, absoff)) if code else None} {errors}")

if failures:
    print(f"DEFECT: {failures} (statement, base) pairs where the absolute word should simply hold the "
          "address wrapped to 16 bits, but the program is refused")
    sys.exit(1)
print("no defect")
sys.exit(0)
