#!/usr/bin/env python
"""C09 relocation law: a position-independent program (labels used only through
branches and PC-relative operands, one relative skip '. = .+4') must assemble to
the same bytes at every link base.  It is refused as soon as the skip ends at or
beyond 0o200000, i.e. for every base at which the program wraps through 0o177777."""
import sys
sys.path.insert(0, "/tmp/wt/G09")
import pdpy11
assert pdpy11.__file__.startswith("/tmp/wt/G09/"), pdpy11.__file__
from pdpy11 import parser, reports, bk_encoding  # noqa: F401
from pdpy11.compiler import Compiler


def assemble(source):
    msgs = []

    def handler(priority, identifier, *spans):
        msgs.append((priority.raw_text, identifier, spans[0][2].splitlines()[0] if spans else ""))
    try:
        with reports.handle_reports(handler):
            files = [parser.parse("/tmp/wt/G09/_scratch/demo1.mac", source)]
            base, code = Compiler().compile_and_link_files(files)
        return base, bytes(code), msgs
    except reports.UnrecoverableError:
        return None, None, msgs


BODY = """
L0:     br      L2
        mov     L2, r0
        {SKIP}
L2:     mov     L0, r1
        br      L0
LEND:
"""
# Expected image, from first principles (identical at every base, nothing absolute in it):
#   br L2          000400 | ((L2-(L0+2))/2 = 4)            -> 000404
#   mov L2, r0     016700, L2-(L0+6) = 4                   -> 016700 000004
#   4 bytes skipped                                         -> 000000 000000
#   mov L0, r1     016701, L0-(L0+12+4) = -16 = 177762     -> 016701 177762
#   br L0          000400 | ((L0-(L0+16+2))/2 & 377 = 370) -> 000770
EXPECTED = b"".join(w.to_bytes(2, "little") for w in
                    [0o000404, 0o016700, 0o000004, 0, 0, 0o016701, 0o177762, 0o000770])

bad = []
for base in [0o1000, 0o100000, 0o177760, 0o177766, 0o177770, 0o177774, 0o177776]:
    src = f"        .link {base:o}\n" + BODY.replace("{SKIP}", ". = .+4")
    b, code, msgs = assemble(src)
    errors = [m for m in msgs if m[0] != "Warning"]
    ok = (b == base and code == EXPECTED and not errors)
    print(f"base {base:06o}: {'ok' if ok else 'WRONG'}  base={b!r} code={code.hex() if code else None} {errors}")
    if not ok:
        bad.append(base)

# The very same program with '.blkb 4' in place of the skip is accepted at the wrapping base,
# and so is the skip itself when the (same!) base is spelled in terms of a later label, which
# takes the other branch of the '. =' code (no 16-bit check there):
for src, what in [
    ("        .link 177774\n" + BODY.replace("{SKIP}", ".blkb 4"), "'.blkb 4' at 177774"),
    ("        .link 177754+(LEND-L0)\n" + BODY.replace("{SKIP}", ". = .+4"), "'. = .+4' at 177754+(LEND-L0) = 177774"),
]:
    b, code, msgs = assemble(src)
    print(f"control {what}: base={b!r} same bytes={code == EXPECTED}")

if bad:
    print("DEFECT: a position-independent program with a relative skip is refused at bases "
          + ", ".join(f"{b:o}" for b in bad) + " (addresses wrap through 177777) but accepted elsewhere")
    sys.exit(1)
print("no defect")
sys.exit(0)
