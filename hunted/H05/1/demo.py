import sys, struct
sys.path.insert(0, "/tmp/wt/H05")
import pdpy11
assert pdpy11.__file__.startswith("/tmp/wt/H05/"), pdpy11.__file__
from pdpy11 import parser, reports, bk_encoding
from pdpy11.compiler import Compiler

def assemble(*sources, charset="bk"):
    msgs = []
    def handler(priority, identifier, *spans):
        msgs.append((priority.raw_text, identifier))
    try:
        with reports.handle_reports(handler):
            files = [parser.parse("/tmp/wt/H05/_scratch/f%d.mac" % i, s) for i, s in enumerate(sources)]
            base, code = Compiler(output_charset=charset).compile_and_link_files(files)
        return base, bytes(code), msgs
    except reports.UnrecoverableError:
        return None, None, msgs

def w(*values):
    return b"".join(struct.pack("<H", v & 0xffff) for v in values)

# A prefix operator (+ - ~ ^C) directly after an infix operator.
# Expected values by unbounded integer arithmetic, C-like precedence.
x = 3
PREFIX = {"+": lambda a: a, "-": lambda a: -a, "~": lambda a: ~a, "^C": lambda a: ~a}
INFIX = {"*": lambda a, b: a * b, "/": lambda a, b: a // b, "%": lambda a, b: a % b, "+": lambda a, b: a + b,
         "-": lambda a, b: a - b, "<<": lambda a, b: a << b, ">>": lambda a, b: a >> b, "_": lambda a, b: a << b,
         "&": lambda a, b: a & b, "^": lambda a, b: a ^ b, "|": lambda a, b: a | b, "!": lambda a, b: a | b}
bad = []
cases = [("1 + ~2", 1 + ~2), ("7 & ^C2", 7 & ~2), ("2 * -x", 2 * -x), ("2 - +x", 2 - x)]
for i, fi in INFIX.items():
    for p, fp in PREFIX.items():
        if i in ("<<", ">>", "_") and p != "+":
            continue  # would be a negative shift count
        cases.append(("100 %s %s x" % (i, p), fi(64, fp(x))))
for text, expected in cases:
    base, code, msgs = assemble("x = 3\n.word %s\n" % text)
    want = w(expected)
    if code != want or msgs:
        bad.append((text, expected, code, msgs))
# the same trees with the prefix operand in brackets are accepted (control)
base, code, msgs = assemble("x = 3\n.word 1 + (~2), 7 & <^C2>, 2 * (-x)\n")
assert code == w(1 + ~2, 7 & ~2, -6) and not msgs, (code, msgs)
for text, expected, code, msgs in bad[:8]:
    print("DEFECT: '.word %s' should give %d, got code=%r diagnostics=%r" % (text, expected, code, msgs))
print("%d of %d expressions with a prefix operator after an infix operator are refused or wrong" % (len(bad), len(cases)))
sys.exit(1 if bad else 0)
