import sys, struct
sys.path.insert(0, "/tmp/wt/H05")
import pdpy11
assert pdpy11.__file__.startswith("/tmp/wt/H05/"), pdpy11.__file__
from pdpy11 import parser, reports, bk_encoding
from pdpy11.compiler import Compiler

def assemble(*sources, charset="bk"):
    msgs = []
    def handler(priority, identifier, *spans):
        msgs.append((priority.raw_text, identifier))
    try:
        with reports.handle_reports(handler):
            files = [parser.parse("/tmp/wt/H05/_scratch/f%d.mac" % i, s) for i, s in enumerate(sources)]
            base, code = Compiler(output_charset=charset).compile_and_link_files(files)
        return base, bytes(code), msgs
    except reports.UnrecoverableError:
        return None, None, msgs

def w(*values):
    return b"".join(struct.pack("<H", v & 0xffff) for v in values)

# Division by zero / a negative shift count inside a factor that is multiplied
# by zero goes unreported when the divisor is not yet known at the first attempt.
def ids(src):
    base, code, msgs = assemble(src)
    return code, [m[1] for m in msgs]

# control: with the divisor known up front the error is reported
code, m = ids("y = 0\n.byte 0 * (1/y)\n")
assert code is None and m == ["arithmetic-error"], (code, m)
code, m = ids("y = -1\n.byte 0 * (1 << y)\n")
assert code is None and m == ["arithmetic-error"], (code, m)
# control: a pending divisor without the zero factor is reported, too
code, m = ids("y = fwd\n.byte 5 + (1/y)\nfwd = 0\n")
assert code is None and m == ["arithmetic-error"], (code, m)

bad = []
for src in [
    "y = fwd\n.byte 0 * (1/y)\nfwd = 0\n",
    "y = fwd\n.byte (1 % y) * 0 + 5\nfwd = 0\n",
    "y = fwd\n.byte 0 * (1 << y)\nfwd = -1\n",
    "y = fwd\nz = 0\n.byte z * (1/y)\nfwd = 0\n",
    ".link 1000\ny = fwd\nmov #0*(1/y), r0\nfwd = 0\n",
    "l: .byte 0 * (1 / (l - 1000))\n",          # l = 1000 (default link base) is only known at the end
]:
    code, m = ids(src)
    if "arithmetic-error" not in m:
        bad.append(src)
        print("DEFECT: %r contains a division by zero / negative shift, but assembles silently to %r, diagnostics %r" % (src, code, m))
sys.exit(1 if bad else 0)
