import sys, struct
sys.path.insert(0, "/tmp/wt/H05")
import pdpy11
assert pdpy11.__file__.startswith("/tmp/wt/H05/"), pdpy11.__file__
from pdpy11 import parser, reports, bk_encoding
from pdpy11.compiler import Compiler

def assemble(*sources, charset="bk"):
    msgs = []
    def handler(priority, identifier, *spans):
        msgs.append((priority.raw_text, identifier))
    try:
        with reports.handle_reports(handler):
            files = [parser.parse("/tmp/wt/H05/_scratch/f%d.mac" % i, s) for i, s in enumerate(sources)]
            base, code = Compiler(output_charset=charset).compile_and_link_files(files)
        return base, bytes(code), msgs
    except reports.UnrecoverableError:
        return None, None, msgs

def w(*values):
    return b"".join(struct.pack("<H", v & 0xffff) for v in values)

# A label or constant whose name starts with '$' or '_' cannot follow a line
# that ends in an expression: '$' and '_' are taken as infix operators of the
# expression on the previous line.
def code_of(src):
    base, code, msgs = assemble(src)
    return code, msgs

# control: the names are legal, and the same programs with another name work
assert code_of("nop\n$loop: dec r0\n") == (w(0o240, 0o5300), [])
assert code_of("nop\n_loop: dec r0\n") == (w(0o240, 0o5300), [])
assert code_of("mov r0, r1\nloop: dec r0\n") == (w(0o10001, 0o5300), [])
bad = []
for src, expected in [
    ("mov r0, r1\n$loop: dec r0\n", w(0o10001, 0o5300)),
    ("mov r0, r1\n_loop: dec r0\n", w(0o10001, 0o5300)),
    ("clr @#100\n$l1: inc r0\n", w(0o5037, 0o100, 0o5200)),
    (".word 1\n$tab: .word 2\n", w(1, 2)),
    ("a = 1\n$b = 2\n.word a, $b\n", w(1, 2)),
    ("a = 1\n_b = 2\n.word a, _b\n", w(1, 2)),
]:
    code, msgs = code_of(src)
    if code != expected or msgs:
        bad.append(src)
        print("DEFECT: legal program %r should assemble to %s, got %s %r" % (src, expected.hex(), code.hex() if code is not None else None, msgs))
sys.exit(1 if bad else 0)
