import sys, struct
sys.path.insert(0, "/tmp/wt/H05")
import pdpy11
assert pdpy11.__file__.startswith("/tmp/wt/H05/"), pdpy11.__file__
from pdpy11 import parser, reports, bk_encoding
from pdpy11.compiler import Compiler

def assemble(*sources, charset="bk"):
    msgs = []
    def handler(priority, identifier, *spans):
        msgs.append((priority.raw_text, identifier))
    try:
        with reports.handle_reports(handler):
            files = [parser.parse("/tmp/wt/H05/_scratch/f%d.mac" % i, s) for i, s in enumerate(sources)]
            base, code = Compiler(output_charset=charset).compile_and_link_files(files)
        return base, bytes(code), msgs
    except reports.UnrecoverableError:
        return None, None, msgs

def w(*values):
    return b"".join(struct.pack("<H", v & 0xffff) for v in values)

# An expression swallows the next source line when that line starts with
# something that can be read as an infix operator.
def code_of(src):
    base, code, msgs = assemble(src)
    return code, msgs

# each statement on its own is legal and gives what one expects
assert code_of(".word 5\n") == (w(5), [])
assert code_of("-1\n") == (w(-1), [])          # implicit .word
assert code_of("+1\n") == (w(1), [])
bad = []
for src, expected in [
    (".word 5\n-1\n", w(5, -1)),
    (".word 5\n\n; a comment\n    -1\n", w(5, -1)),
    ("x = 5\n-1\n.word x\n", w(-1, 5)),
    (".word 5\n+1\n", w(5, 1)),
    (".byte 6, 6\n^C1\n", b"\x06\x06" + w(~1)),
    (".word 1\n^X10\n", w(1, 16)),
]:
    code, msgs = code_of(src)
    if code != expected or msgs:
        bad.append(src)
        print("DEFECT: %r should assemble to %s, got %s %r" % (src, expected.hex(), code.hex() if code is not None else None, msgs))
sys.exit(1 if bad else 0)
