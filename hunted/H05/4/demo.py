import sys, struct
sys.path.insert(0, "/tmp/wt/H05")
import pdpy11
assert pdpy11.__file__.startswith("/tmp/wt/H05/"), pdpy11.__file__
from pdpy11 import parser, reports, bk_encoding
from pdpy11.compiler import Compiler

def assemble(*sources, charset="bk"):
    msgs = []
    def handler(priority, identifier, *spans):
        msgs.append((priority.raw_text, identifier))
    try:
        with reports.handle_reports(handler):
            files = [parser.parse("/tmp/wt/H05/_scratch/f%d.mac" % i, s) for i, s in enumerate(sources)]
            base, code = Compiler(output_charset=charset).compile_and_link_files(files)
        return base, bytes(code), msgs
    except reports.UnrecoverableError:
        return None, None, msgs

def w(*values):
    return b"".join(struct.pack("<H", v & 0xffff) for v in values)

# Grouping with < > : two closing brackets in a row, or a closing bracket
# followed by the >> operator, are lexed as '>>' first and the parse dies.
bad = []
for text, expected in [
    ("<2*<3+4>>", 2 * (3 + 4)),
    ("<<1>>", 1),
    ("1+<2+<3>>", 6),
    ("<4>>>1", 4 >> 1),
]:
    base, code, msgs = assemble(".word %s\n" % text)
    if code != w(expected) or msgs:
        bad.append(text)
        print("DEFECT: '.word %s' should give %d, got code=%r diagnostics=%r" % (text, expected, code, msgs))
# control: the same trees with ( ) or with a blank between the brackets work
base, code, msgs = assemble(".word (2*(3+4)), <2*<3+4> >, <4> >>1\n")
assert code == w(14, 14, 2) and not msgs, (code, msgs)
base, code, msgs = assemble("mov #<2*<3+4>>, r0\n")
if code != w(0o12700, 14) or msgs:
    bad.append("mov")
    print("DEFECT: 'mov #<2*<3+4>>, r0' should give 012700 000016, got code=%r diagnostics=%r" % (code, msgs))
sys.exit(1 if bad else 0)
