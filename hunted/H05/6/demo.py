import sys, struct
sys.path.insert(0, "/tmp/wt/H05")
import pdpy11
assert pdpy11.__file__.startswith("/tmp/wt/H05/"), pdpy11.__file__
from pdpy11 import parser, reports, bk_encoding
from pdpy11.compiler import Compiler

def assemble(*sources, charset="bk"):
    msgs = []
    def handler(priority, identifier, *spans):
        msgs.append((priority.raw_text, identifier))
    try:
        with reports.handle_reports(handler):
            files = [parser.parse("/tmp/wt/H05/_scratch/f%d.mac" % i, s) for i, s in enumerate(sources)]
            base, code = Compiler(output_charset=charset).compile_and_link_files(files)
        return base, bytes(code), msgs
    except reports.UnrecoverableError:
        return None, None, msgs

def w(*values):
    return b"".join(struct.pack("<H", v & 0xffff) for v in values)

# Right shifts by a count above 2**24 are refused although their value is
# perfectly defined (0 or -1) and costs nothing to compute.
bad = []
for text, expected in [
    ("1 >> 100000001", 1 >> 0o100000001),
    ("-1 >> 100000001", -1 >> 0o100000001),
    ("1 _ -100000001", 1 >> 0o100000001),
    ("177777 >> (1 << 30.)", 0),
]:
    base, code, msgs = assemble(".word %s\n" % text)
    if code != w(expected) or msgs:
        bad.append(text)
        print("DEFECT: '.word %s' should give %d, got code=%r diagnostics=%r" % (text, expected, code, msgs))
# control: one less is fine
base, code, msgs = assemble(".word 1 >> 100000000, -1 >> 100000000\n")
assert code == w(0, -1) and not msgs
sys.exit(1 if bad else 0)
