"""'.rad50 <n>' whose code n is computed from a label placed after the
statement is refused with a false 'recursive-definition' error, although the
size of a '.rad50' statement never depends on the values of its codes."""
import sys
sys.path.insert(0, "/tmp/wt/G15")
import struct
import pdpy11
assert pdpy11.__file__.startswith("/tmp/wt/G15/"), pdpy11.__file__
from pdpy11 import parser, reports
from pdpy11.compiler import Compiler


def assemble(source):
    msgs = []
    def handler(priority, identifier, *spans):
        msgs.append((priority.raw_text, identifier))
    try:
        with reports.handle_reports(handler):
            files = [parser.parse("/tmp/wt/G15/_scratch/demo1.mac", source)]
            base, code = Compiler(output_charset="bk").compile_and_link_files(files)
        return base, bytes(code), msgs
    except reports.UnrecoverableError:
        return None, None, msgs


def word(a, b, c):
    return struct.pack("<H", (a * 40 + b) * 40 + c)

bad = 0

# Control: the same arithmetic on a forward label is fine for '.byte'/'.word'
base, code, msgs = assemble(".link 1000\n.word z-1000\nz:\n")
assert code == struct.pack("<H", 2), (code, msgs)

# Control: the distance of two later labels works
base, code, msgs = assemble(".link 1000\n.rad50 <e-s>/ab/\ns: .word 0\ne:\n")
assert code == word(2, 1, 2) + b"\0\0", (code, msgs)

CASES = [
    # z = 1002 (the statement occupies exactly one word whatever <n> is), so n = 2 -> 'B'
    (".link 1000\n.rad50 <z-1000>\nz:\n", word(2, 0, 0)),
    # n = 4 -> 'D', followed by 'AB'
    (".link 1000\n.rad50 <z-1000>/ab/\n.word 0\nz:\n", word(4, 1, 2) + b"\0\0"),
    # size of the statement itself, via two labels around it: e - s = 2
    (".link 1000\ns: .rad50 <e-s>\ne:\n", word(2, 0, 0)),
    # local labels
    (".link 1000\nx: .rad50 /abc/\n1$: .rad50 <2$-1$>\n2$:\n", word(1, 2, 3) + word(2, 0, 0)),
]
for src, expected in CASES:
    base, code, msgs = assemble(src)
    if code != expected:
        bad += 1
        print("DEFECT: legal program refused / wrong bytes")
        print("  source  :", repr(src))
        print("  expected:", expected.hex(), "(no diagnostics)")
        print("  got     :", None if code is None else code.hex(), msgs)

if bad:
    print(f"{bad} of {len(CASES)} legal '.rad50 <n>' programs with a forward label were refused")
    sys.exit(1)
print("ok")
