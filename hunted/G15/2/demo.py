"""One wrong character / code in a '.rad50' statement is reported two or three
times when another chunk of the same statement mentions a constant defined
further down (the statement is evaluated again from the start and repeats the
diagnostics of the first attempt)."""
import sys
sys.path.insert(0, "/tmp/wt/G15")
import pdpy11
assert pdpy11.__file__.startswith("/tmp/wt/G15/"), pdpy11.__file__
from pdpy11 import parser, reports
from pdpy11.compiler import Compiler


def assemble(source):
    msgs = []
    def handler(priority, identifier, *spans):
        msgs.append((priority.raw_text, identifier, tuple((repr(s[0]), repr(s[1])) for s in spans)))
    try:
        with reports.handle_reports(handler):
            files = [parser.parse("/tmp/wt/G15/_scratch/demo2.mac", source)]
            base, code = Compiler(output_charset="bk").compile_and_link_files(files)
        return base, bytes(code), msgs
    except reports.UnrecoverableError:
        return None, None, msgs

bad = 0
CASES = [
    # (source, identifier, number of distinct faults of that kind in the source)
    (".rad50 <50><x>\nx = 1\n", "value-out-of-bounds", 1),      # one code >= 40
    (".rad50 /!/<x>\nx = 1\n", "invalid-character", 1),         # one character outside the alphabet
    (".rad50 <50><x>\nx = y\ny = 1\n", "value-out-of-bounds", 1),
]
# control: without the forward reference each fault is reported exactly once
for src, ident in ((".rad50 <50><1>\n", "value-out-of-bounds"), (".rad50 /!/<1>\n", "invalid-character"), ("x = 1\n.rad50 <50><x>\n", "value-out-of-bounds")):
    _, code, msgs = assemble(src)
    assert code is None and [m[1] for m in msgs] == [ident], (src, msgs)

for src, ident, faults in CASES:
    _, code, msgs = assemble(src)
    same = [m for m in msgs if m[1] == ident]
    if code is not None:
        bad += 1
        print("DEFECT: accepted", repr(src))
    elif len(same) != faults or len(set(same)) != len(same):
        bad += 1
        print("DEFECT: the same diagnostic is issued %d times for %d fault(s)" % (len(same), faults))
        print("  source:", repr(src))
        for m in msgs:
            print("   ", m)

if bad:
    sys.exit(1)
print("ok")
