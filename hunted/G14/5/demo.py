# Finding 5: Compiler() defaults to output_charset="bk", but the codec is only registered as a side effect of
# importing pdpy11._cli (or pdpy11.bk_encoding by hand): without that, every string is an internal LookupError
import subprocess, sys
child = r'''
import sys
sys.path.insert(0, "/tmp/wt/G14")
import pdpy11
assert pdpy11.__file__.startswith("/tmp/wt/G14/"), pdpy11.__file__
from pdpy11 import parser, reports
from pdpy11.compiler import Compiler          # the default charset of Compiler is "bk"
msgs = []
try:
    with reports.handle_reports(lambda p, i, *s: msgs.append((p.raw_text, i))):
        f = parser.parse("/tmp/wt/G14/_scratch/f.mac", '.ascii "a"\n.word \'b')
        base, code = Compiler().compile_and_link_files([f])
    print("RESULT", bytes(code))
except reports.UnrecoverableError:
    print("ASSEMBLY ERROR", msgs)
except Exception as e:
    print("INTERNAL", type(e).__name__, e)
'''
out = subprocess.run([sys.executable, "-c", child], capture_output=True, text=True).stdout.strip()
print(out)
if out.startswith("RESULT") and "b'ab\\x00'" in out:
    print("ok")
    sys.exit(0)
print("DEFECT PRESENT: a legal program ('.ascii \"a\"') assembled with Compiler()'s own default charset dies with", out)
sys.exit(1)
