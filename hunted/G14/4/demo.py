# Finding 4: the 'invalid-character' diagnostic of .ascii/.asciz points at the whole statement and quotes a
# position relative to one chunk, so it names a wrong (valid) character; and it can be issued twice
import sys
sys.path.insert(0, "/tmp/wt/G14")
import pdpy11
assert pdpy11.__file__.startswith("/tmp/wt/G14/"), pdpy11.__file__
from pdpy11 import parser, reports, bk_encoding
from pdpy11.compiler import Compiler


def assemble(*sources, charset="bk"):
    """-> (base, bytes, msgs); (None, None, msgs) when the assembly fails."""
    msgs = []
    def handler(priority, identifier, *spans):
        msgs.append((priority.raw_text, identifier, [(s[0].pos, s[1].pos, s[2]) for s in spans]))
    try:
        with reports.handle_reports(handler):
            files = [parser.parse("/tmp/wt/G14/_scratch/f%d.mac" % i, s) for i, s in enumerate(sources)]
            comp = Compiler(output_charset=charset)
            base, code = comp.compile_and_link_files(files)
        assemble.last_compiler = comp
        return base, bytes(code), msgs
    except reports.UnrecoverableError:
        return None, None, msgs

problems = []

src = '.ascii "aaaa" "b€"'
base, code, msgs = assemble(src)
assert code is None
(start, end, text), = msgs[0][2]
bad_at = src.index("€")
import re
m = re.search(r"in position (\d+)", text)
pos = int(m.group(1))
# Where does the user end up if he follows the diagnostic? The span is the statement
# (its only string data: aaaab<euro>), the position is 1.
whole_string = "aaaab€"
span_is_chunk = src[start:end] in ('"b€"', "€")
if not span_is_chunk and whole_string[pos] != "€":
    problems.append("%r: span %d..%d = %r, message says position %d, which in the statement's string %r is %r, not the offending character (source offset %d)"
                    % (src, start, end, src[start:end], pos, whole_string, whole_string[pos], bad_at))

# the same error twice when the statement has to be evaluated a second time
src = '.ascii "€" <x>\nx = 1'
base, code, msgs = assemble(src)
n = sum(1 for m in msgs if m[1] == "invalid-character")
if n != 1:
    problems.append("%r: the single offending character is reported %d times" % (src, n))

# the advice in the diagnostic
base, code, msgs2 = assemble('.charset koi8-r\n.ascii "a"')
if "'.charset' directive" in text and code is None and msgs2[0][1] == "unknown-insn":
    problems.append("the diagnostic recommends a '.charset' directive, which the assembler refuses as 'unknown-insn'")

if problems:
    print("DEFECT PRESENT:")
    for p in problems: print(" -", p)
    sys.exit(1)
print("ok")
