# Finding 6: when the terminal encoding cannot show the offending character, the 'invalid-character' diagnostic
# for a BK tape name turns into "An unexpected internal compiler error happened" (traceback) instead of an error
import os, subprocess, sys
os.makedirs("/tmp/wt/G14/_scratch", exist_ok=True)
src = "/tmp/wt/G14/_scratch/f6.mac"
with open(src, "w", encoding="utf-8") as f:
    f.write('make_wav "f6.wav", "€"\n.word 1\n')
env = dict(os.environ, PYTHONIOENCODING="ascii")      # same as a non-UTF-8 locale / Windows console code page
r = subprocess.run([sys.executable, "-m", "pdpy11", src, "--report-format", "bare"], cwd="/tmp/wt/G14", env=env, capture_output=True, text=True)
both = r.stdout + r.stderr
print("exit status", r.returncode)
if "unexpected internal compiler error" in both:
    print([l for l in both.splitlines() if "Error" in l][-1])
    print("DEFECT PRESENT: the unencodable character surfaces as an internal compiler error, not as an assembly error")
    sys.exit(1)
assert r.returncode == 1 and "Cannot encode the BK filename" in both, both
print("ok")
