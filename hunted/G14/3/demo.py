# Finding 3: the range named by the encoding error covers characters that are perfectly encodable
import sys
sys.path.insert(0, "/tmp/wt/G14")
import pdpy11
assert pdpy11.__file__.startswith("/tmp/wt/G14/"), pdpy11.__file__
from pdpy11 import parser, reports, bk_encoding
from pdpy11.compiler import Compiler


def assemble(*sources, charset="bk"):
    """-> (base, bytes, msgs); (None, None, msgs) when the assembly fails."""
    msgs = []
    def handler(priority, identifier, *spans):
        msgs.append((priority.raw_text, identifier, [(s[0].pos, s[1].pos, s[2]) for s in spans]))
    try:
        with reports.handle_reports(handler):
            files = [parser.parse("/tmp/wt/G14/_scratch/f%d.mac" % i, s) for i, s in enumerate(sources)]
            comp = Compiler(output_charset=charset)
            base, code = comp.compile_and_link_files(files)
        assemble.last_compiler = comp
        return base, bytes(code), msgs
    except reports.UnrecoverableError:
        return None, None, msgs

problems = []
enc = bk_encoding.ENCODING_TABLE

for s in ["€ab€c", "x€yyyy€", "€" + "a" * 10 + "€"]:
    try:
        s.encode("bk")
        raise SystemExit("unexpectedly encodable")
    except UnicodeEncodeError as ex:
        named = s[ex.start:ex.end]
        innocent = [(ex.start + i, c) for i, c in enumerate(named) if c in enc]
        # Python's convention (and the property: 'naming the offending position'):
        # object[start:end] is the run of characters that cannot be encoded
        if innocent:
            problems.append("%r: error names positions %d-%d (%s), which include the encodable %r"
                            % (s, ex.start, ex.end - 1, ex, innocent))

# the same text reaches the user
base, code, msgs = assemble('.ascii "€ab€c"')
assert code is None
text = msgs[0][2][0][2]
if "position 0-3" in text:
    problems.append("assembler diagnostic for '.ascii \"€ab€c\"': " + text.split("\n")[1])

if problems:
    print("DEFECT PRESENT:")
    for p in problems: print(" -", p)
    sys.exit(1)
print("ok")
