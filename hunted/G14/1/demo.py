# Finding 1: U+00A4 is accepted by the 'bk' charset and silently becomes 0x24 ('$')
import sys
sys.path.insert(0, "/tmp/wt/G14")
import pdpy11
assert pdpy11.__file__.startswith("/tmp/wt/G14/"), pdpy11.__file__
from pdpy11 import parser, reports, bk_encoding
from pdpy11.compiler import Compiler


def assemble(*sources, charset="bk"):
    """-> (base, bytes, msgs); (None, None, msgs) when the assembly fails."""
    msgs = []
    def handler(priority, identifier, *spans):
        msgs.append((priority.raw_text, identifier, [(s[0].pos, s[1].pos, s[2]) for s in spans]))
    try:
        with reports.handle_reports(handler):
            files = [parser.parse("/tmp/wt/G14/_scratch/f%d.mac" % i, s) for i, s in enumerate(sources)]
            comp = Compiler(output_charset=charset)
            base, code = comp.compile_and_link_files(files)
        assemble.last_compiler = comp
        return base, bytes(code), msgs
    except reports.UnrecoverableError:
        return None, None, msgs


problems = []

# (a) codec level: the charset must be a bijection of 256 characters <-> 256 bytes
accepted = []
for cp in range(0x110000):
    try:
        chr(cp).encode("bk")
        accepted.append(cp)
    except UnicodeEncodeError:
        pass
not_inverse = [cp for cp in accepted if chr(cp).encode("bk").decode("bk") != chr(cp)]
if len(accepted) != 256:
    problems.append("encode() accepts %d characters, not 256; characters that do not survive the round trip: %s"
                    % (len(accepted), [hex(cp) for cp in not_inverse]))

# (b) assembler level: a character that is not what byte 0x24 decodes to must be refused, not turned into '$'
for src in ['.ascii "\\xa4"', '.ascii "¤"', ".word '¤", '.word "¤¤']:
    base, code, msgs = assemble(src)
    if code is not None:
        problems.append("%r assembled without any diagnostic to %r (expected an 'invalid-character' error, as for \\xa3 / \\xa5)" % (src, code))

# control: the neighbours behave as the property says
for src in ['.ascii "\\xa3"', '.ascii "\\xa5"']:
    base, code, msgs = assemble(src)
    assert code is None and msgs[0][1] == "invalid-character", (src, code, msgs)

# (c) the tape name of make_wav: "<244>" is byte 0xA4 in .ascii but becomes 0x24 in the tape header
base, code, msgs = assemble('make_wav "x.wav", "ab" <244>\n.word 1')
if code is not None:
    name = assemble.last_compiler.emitted_files[0][4]
    if name[:3] == b"ab$":
        problems.append("make_wav \"x.wav\", \"ab\" <244> puts %r into the tape header ('.ascii \"ab\" <244>' gives b'ab\\xa4')" % name)

if problems:
    print("DEFECT PRESENT:")
    for p in problems:
        print(" -", p)
    sys.exit(1)
print("ok")
