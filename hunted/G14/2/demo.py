# Finding 2: the value of a character literal is memoised on the syntax tree: a second assembly of the same
# parsed file silently emits 0 for an unencodable character, and keeps the bytes of the first charset
import sys
sys.path.insert(0, "/tmp/wt/G14")
import pdpy11
assert pdpy11.__file__.startswith("/tmp/wt/G14/"), pdpy11.__file__
from pdpy11 import parser, reports, bk_encoding
from pdpy11.compiler import Compiler


def assemble(*sources, charset="bk"):
    """-> (base, bytes, msgs); (None, None, msgs) when the assembly fails."""
    msgs = []
    def handler(priority, identifier, *spans):
        msgs.append((priority.raw_text, identifier, [(s[0].pos, s[1].pos, s[2]) for s in spans]))
    try:
        with reports.handle_reports(handler):
            files = [parser.parse("/tmp/wt/G14/_scratch/f%d.mac" % i, s) for i, s in enumerate(sources)]
            comp = Compiler(output_charset=charset)
            base, code = comp.compile_and_link_files(files)
        assemble.last_compiler = comp
        return base, bytes(code), msgs
    except reports.UnrecoverableError:
        return None, None, msgs

def parse(src):
    with reports.handle_reports(lambda *a: None):
        return [parser.parse("/tmp/wt/G14/_scratch/f.mac", src)]

def run(files, charset):
    msgs = []
    def handler(priority, identifier, *spans): msgs.append((priority.raw_text, identifier))
    try:
        with reports.handle_reports(handler):
            base, code = Compiler(output_charset=charset).compile_and_link_files(files)
        return bytes(code), msgs
    except reports.UnrecoverableError:
        return None, msgs

problems = []

# (a) an unencodable character is an error only the first time the tree is assembled
files = parse(".word '€")
first = run(files, "bk")
second = run(files, "bk")
assert first[0] is None and ("Error", "invalid-character") in first[1], first
if second[0] is not None:
    problems.append("second assembly of the same parsed \".word '€\" succeeds with bytes %r and diagnostics %r (first: %r)" % (second[0], second[1], first[1]))

# (b) the bytes of the first assembly's charset leak into the next one
files = parse(".word 'ы\n.ascii \"ы\"")     # Cyrillic yeru: 0xD9 in bk/KOI8-R, D1 8B in UTF-8
bk = run(files, "bk")
utf = run(files, "utf-8")
fresh = run(parse(".word 'ы\n.ascii \"ы\""), "utf-8")
assert bk[0] == b"\xd9\x00\xd9" and fresh[0] == b"\xd1\x8b\xd1\x8b", (bk, fresh)
if utf[0] != fresh[0]:
    problems.append("the same tree assembled with --charset utf-8 after bk gives %r, a fresh parse gives %r" % (utf[0], fresh[0]))

if problems:
    print("DEFECT PRESENT:")
    for p in problems: print(" -", p)
    sys.exit(1)
print("ok")
