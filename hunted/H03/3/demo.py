import sys, os
sys.path.insert(0, "/tmp/wt/H03")
import pdpy11
assert pdpy11.__file__.startswith("/tmp/wt/H03/"), pdpy11.__file__
from pdpy11 import parser, reports, bk_encoding
from pdpy11.compiler import Compiler

def assemble(path, source, charset="bk"):
    """-> (base, bytes, [(priority, id)]) ; (None, None, msgs) on a reported failure; ('EXC', repr, msgs) on an internal error"""
    msgs = []
    def handler(priority, identifier, *spans): msgs.append((priority.raw_text, identifier))
    try:
        with reports.handle_reports(handler):
            files = [parser.parse(path, source)]
            base, code = Compiler(output_charset=charset).compile_and_link_files(files)
        return base, bytes(code), msgs
    except reports.UnrecoverableError:
        return None, None, msgs
    except BaseException as e:   # anything else is an internal error
        return "EXC", type(e).__name__, msgs

def describe(r):
    if r[0] is None: return "REFUSED " + str([m[1] for m in r[2] if m[0] != "Warning"])
    if r[0] == "EXC": return "INTERNAL ERROR " + r[1]
    return "OK base=%o bytes=%s" % (r[0], r[1].hex())

# Finding 3: '.include' is declared to occupy 0 bytes (@metacommand(size=0)).  That is harmless as long
# as the file is read on the spot, because then the statement is replaced by the included code.
# If the file name cannot be computed yet ("inc"<c>".mac" with c defined further down) the statement
# stays a SizedDeferred of size 0: everything behind it is laid out as if the included file were empty,
# but its bytes are still inserted.
HERE = os.path.dirname(os.path.abspath(__file__))
WORK = os.path.join(HERE, "work"); os.makedirs(WORK, exist_ok=True)
with open(os.path.join(WORK, "inc1.mac"), "w") as f: f.write(".word 1, 2\n")      # 4 bytes
with open(os.path.join(WORK, "incx.mac"), "w") as f: f.write("x == 7\n.word 1, 2\n")

body = ['.include "inc"<c>".mac"', "L: .word L"]          # <61> is the character '1'
# first principles: default base 1000 (octal); the included file gives 01 00 02 00; L = 1004; '.word L' = 04 02
expected = (0o1000, bytes([1, 0, 2, 0, 0x04, 0x02]))
bad = 0
for name, lines in (("c defined above", ["c = 61"] + body), ("c defined below", body + ["c = 61"]), ("c in between", body[:1] + ["c = 61"] + body[1:])):
    src = "\n".join(lines) + "\n"
    r = assemble(os.path.join(WORK, "main.mac"), src)
    ok = (r[0], r[1]) == expected
    print("%-18s %-52s -> %s %s" % (name, src.replace("\n", " | "), describe(r), "" if ok else "  <-- WRONG, expected bytes " + expected[1].hex()))
    bad += not ok

# second symptom: names exported by the included file are unknown to everything in front of it
body2 = [".word x", '.include "inc"<c>".mac"']
res = []
for name, lines in (("c defined above", ["c = 170"] + body2), ("c defined below", body2 + ["c = 170"])):   # <170> = 'x'
    src = "\n".join(lines) + "\n"
    r = assemble(os.path.join(WORK, "main.mac"), src); res.append(r)
    print("%-18s %-52s -> %s" % (name, src.replace("\n", " | "), describe(r)))
if len(set((r[0], r[1]) for r in res)) > 1:
    print("DEFECT: moving 'c = 170' changes the outcome"); bad += 1
sys.exit(1 if bad else 0)
