import sys, os
sys.path.insert(0, "/tmp/wt/H03")
import pdpy11
assert pdpy11.__file__.startswith("/tmp/wt/H03/"), pdpy11.__file__
from pdpy11 import parser, reports, bk_encoding
from pdpy11.compiler import Compiler

def assemble(path, source, charset="bk"):
    """-> (base, bytes, [(priority, id)]) ; (None, None, msgs) on a reported failure; ('EXC', repr, msgs) on an internal error"""
    msgs = []
    def handler(priority, identifier, *spans): msgs.append((priority.raw_text, identifier))
    try:
        with reports.handle_reports(handler):
            files = [parser.parse(path, source)]
            base, code = Compiler(output_charset=charset).compile_and_link_files(files)
        return base, bytes(code), msgs
    except reports.UnrecoverableError:
        return None, None, msgs
    except BaseException as e:   # anything else is an internal error
        return "EXC", type(e).__name__, msgs

def describe(r):
    if r[0] is None: return "REFUSED " + str([m[1] for m in r[2] if m[0] != "Warning"])
    if r[0] == "EXC": return "INTERNAL ERROR " + r[1]
    return "OK base=%o bytes=%s" % (r[0], r[1].hex())

# Finding 4: a file that includes itself from a '.repeat n { }' body is diagnosed ('recursive-include')
# when n is defined above the '.repeat', and ends in a Python RecursionError ("unexpected internal
# compiler error") when the same definition stands below it.
import subprocess
HERE = os.path.dirname(os.path.abspath(__file__))
WORK = os.path.join(HERE, "work"); os.makedirs(WORK, exist_ok=True)
files = {
    "top.mac": 'n = 1\nnop\n.repeat n { .include "top.mac" }\n',
    "bot.mac": 'nop\n.repeat n { .include "bot.mac" }\nn = 1\n',
}
res = {}
for name, text in files.items():
    path = os.path.join(WORK, name)
    with open(path, "w") as f: f.write(text)
    r = assemble(path, text)
    res[name] = r
    print("in-process  %-8s %-50s -> %s" % (name, text.replace("\n", " | "), describe(r)))
    p = subprocess.run([sys.executable, "-m", "pdpy11", "--report-format", "bare", path, "-o", os.path.join(WORK, name + ".bin")],
                       cwd="/tmp/wt/H03", capture_output=True, text=True, timeout=600)
    out = p.stdout + "\n" + p.stderr
    internal = "unexpected internal compiler error" in out
    last = ([l for l in out.strip().split("\n") if l.strip()] or ["(no output)"])[-1][:150]
    print("command line %-8s exit status %d, %s; last line: %s" % (name, p.returncode, "INTERNAL ERROR TRACEBACK" if internal else "regular diagnostics", last))
    res[name] = (r, internal)
bad = 0
for name, (r, internal) in res.items():
    if r[0] == "EXC" or internal:
        print("DEFECT: %s ends in an internal error instead of the 'recursive-include' diagnostic" % name); bad += 1
    elif r[0] is not None:
        print("DEFECT: %s (infinite self-inclusion) was accepted" % name); bad += 1
    elif ("Error", "recursive-include") not in r[2]:
        print("DEFECT: %s is refused but not with 'recursive-include': %r" % (name, r[2])); bad += 1
sys.exit(1 if bad else 0)
