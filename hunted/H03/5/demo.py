import sys, os
sys.path.insert(0, "/tmp/wt/H03")
import pdpy11
assert pdpy11.__file__.startswith("/tmp/wt/H03/"), pdpy11.__file__
from pdpy11 import parser, reports, bk_encoding
from pdpy11.compiler import Compiler

def assemble(path, source, charset="bk"):
    """-> (base, bytes, [(priority, id)]) ; (None, None, msgs) on a reported failure; ('EXC', repr, msgs) on an internal error"""
    msgs = []
    def handler(priority, identifier, *spans): msgs.append((priority.raw_text, identifier))
    try:
        with reports.handle_reports(handler):
            files = [parser.parse(path, source)]
            base, code = Compiler(output_charset=charset).compile_and_link_files(files)
        return base, bytes(code), msgs
    except reports.UnrecoverableError:
        return None, None, msgs
    except BaseException as e:   # anything else is an internal error
        return "EXC", type(e).__name__, msgs

def describe(r):
    if r[0] is None: return "REFUSED " + str([m[1] for m in r[2] if m[0] != "Warning"])
    if r[0] == "EXC": return "INTERNAL ERROR " + r[1]
    return "OK base=%o bytes=%s" % (r[0], r[1].hex())

# Finding 5: '.once' makes the *first compiled* inclusion of a file the one that counts.  Which inclusion
# is compiled first depends on where the count of a surrounding '.repeat' is defined, so moving 'n = 1'
# moves the included code to a different place of the image - silently.
HERE = os.path.dirname(os.path.abspath(__file__))
WORK = os.path.join(HERE, "work"); os.makedirs(WORK, exist_ok=True)
with open(os.path.join(WORK, "once1.mac"), "w") as f: f.write(".once\n.word 1\n")
body = ['.repeat n { .include "once1.mac" }', ".byte 7, 7", '.include "once1.mac"']
# first principles: the first inclusion in source order emits 01 00, then 07 07, the second inclusion is empty
# (this is also what the literal count '.repeat 1' gives)
expected = bytes([1, 0, 7, 7])
bad = 0
variants = [("n defined above", ["n = 1"] + body), ("n defined below", body + ["n = 1"]), ("literal count", [body[0].replace(" n ", " 1 ")] + body[1:])]
res = []
for name, lines in variants:
    src = "\n".join(lines) + "\n"
    r = assemble(os.path.join(WORK, "main.mac"), src); res.append(r)
    ok = r[1] == expected
    print("%-16s %-88s -> %s%s" % (name, src.replace("\n", " | "), describe(r), "" if ok else "   <-- expected " + expected.hex()))
    bad += not ok
if len(set((r[0], r[1]) for r in res[:2])) > 1:
    print("DEFECT: moving 'n = 1' changes the emitted bytes")
    bad += 1
sys.exit(1 if bad else 0)
