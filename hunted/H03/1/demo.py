import sys, os
sys.path.insert(0, "/tmp/wt/H03")
import pdpy11
assert pdpy11.__file__.startswith("/tmp/wt/H03/"), pdpy11.__file__
from pdpy11 import parser, reports, bk_encoding
from pdpy11.compiler import Compiler

def assemble(path, source, charset="bk"):
    """-> (base, bytes, [(priority, id)]) ; (None, None, msgs) on a reported failure; ('EXC', repr, msgs) on an internal error"""
    msgs = []
    def handler(priority, identifier, *spans): msgs.append((priority.raw_text, identifier))
    try:
        with reports.handle_reports(handler):
            files = [parser.parse(path, source)]
            base, code = Compiler(output_charset=charset).compile_and_link_files(files)
        return base, bytes(code), msgs
    except reports.UnrecoverableError:
        return None, None, msgs
    except BaseException as e:   # anything else is an internal error
        return "EXC", type(e).__name__, msgs

def describe(r):
    if r[0] is None: return "REFUSED " + str([m[1] for m in r[2] if m[0] != "Warning"])
    if r[0] == "EXC": return "INTERNAL ERROR " + r[1]
    return "OK base=%o bytes=%s" % (r[0], r[1].hex())

# Finding 1: a definition that refers to itself is accepted or refused depending on
# the order of the two definitions (and of nothing else).
HERE = os.path.dirname(os.path.abspath(__file__))
bad = 0
cases = [
    (["a = a - b", "b = a"], ".word a, b"),
    (["a = b + 1", "b = a - b"], ".word b, a"),
    (["a = b", "b = c - 3", "c = a * 0 - a + a"], ".word a, b, c"),
]
for defs, use in cases:
    outcomes = []
    import itertools
    for order in itertools.permutations(defs):
        src = "\n".join(list(order) + [use]) + "\n"
        r = assemble(os.path.join(HERE, "x.mac"), src)
        outcomes.append((src, r))
        print(src.replace("\n", " | "), "->", describe(r))
    kinds = set((r[0] is None, r[1]) for _, r in outcomes)
    if len(kinds) > 1:
        print("  DEFECT: permuting the definitions changes the success/failure outcome")
        bad += 1
    # every case contains a definition that mentions its own name (directly or through the
    # other one), which pdpy11 reports as 'recursive-definition' in the other order
    if any(r[0] is not None for _, r in outcomes):
        print("  (a self-referential definition was silently accepted in at least one order)")
    print()
sys.exit(1 if bad else 0)
