import sys, os
sys.path.insert(0, "/tmp/wt/H03")
import pdpy11
assert pdpy11.__file__.startswith("/tmp/wt/H03/"), pdpy11.__file__
from pdpy11 import parser, reports, bk_encoding
from pdpy11.compiler import Compiler

def assemble(path, source, charset="bk"):
    """-> (base, bytes, [(priority, id)]) ; (None, None, msgs) on a reported failure; ('EXC', repr, msgs) on an internal error"""
    msgs = []
    def handler(priority, identifier, *spans): msgs.append((priority.raw_text, identifier))
    try:
        with reports.handle_reports(handler):
            files = [parser.parse(path, source)]
            base, code = Compiler(output_charset=charset).compile_and_link_files(files)
        return base, bytes(code), msgs
    except reports.UnrecoverableError:
        return None, None, msgs
    except BaseException as e:   # anything else is an internal error
        return "EXC", type(e).__name__, msgs

def describe(r):
    if r[0] is None: return "REFUSED " + str([m[1] for m in r[2] if m[0] != "Warning"])
    if r[0] == "EXC": return "INTERNAL ERROR " + r[1]
    return "OK base=%o bytes=%s" % (r[0], r[1].hex())

# Finding 6: the expression of 'name = expression' does not end at the end of the line.  If the next
# line begins with a character that is also an infix operator ('_', '$', '-', '+', '*', '(' ...), it is
# swallowed as a continuation.  So whether a definition works depends on what happens to stand below it,
# i.e. on the top-level position it is moved to.
HERE = os.path.dirname(os.path.abspath(__file__))
bad = 0
def check(title, a, b, expected):
    global bad
    print(title)
    res = []
    for src in (a, b):
        r = assemble(os.path.join(HERE, "x.mac"), src); res.append(r)
        ok = (r[0], r[1]) == expected
        print("   %-44s -> %s%s" % (src.replace("\n", " | "), describe(r), "" if ok else "   <-- expected base=%o bytes=%s" % (expected[0], expected[1].hex())))
    if (res[0][0], res[0][1]) != (res[1][0], res[1][1]):
        print("   DEFECT: moving the definition 'c = 5' changes the outcome"); bad += 1
    print()

# mov #5, r0  =  012700 000005  ->  c0 15 05 00
check("(a) definition directly above a label that starts with an underscore",
      "_start: mov #c, r0\nc = 5\n", "c = 5\n_start: mov #c, r0\n", (0o1000, bytes([0xc0, 0x15, 5, 0])))
check("(b) definition directly above another definition whose name starts with '$'",
      "$x = 2\nc = 5\n.word c, $x\n", "c = 5\n$x = 2\n.word c, $x\n", (0o1000, bytes([5, 0, 2, 0])))
check("(c) definition directly above an implicit word '-1': accepted, but the wrong bytes (c becomes 4, the word -1 is lost)",
      "-1\nc = 5\n.word c\n", "c = 5\n-1\n.word c\n", (0o1000, bytes([0xff, 0xff, 5, 0])))
sys.exit(1 if bad else 0)
