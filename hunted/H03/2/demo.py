import sys, os
sys.path.insert(0, "/tmp/wt/H03")
import pdpy11
assert pdpy11.__file__.startswith("/tmp/wt/H03/"), pdpy11.__file__
from pdpy11 import parser, reports, bk_encoding
from pdpy11.compiler import Compiler

def assemble(path, source, charset="bk"):
    """-> (base, bytes, [(priority, id)]) ; (None, None, msgs) on a reported failure; ('EXC', repr, msgs) on an internal error"""
    msgs = []
    def handler(priority, identifier, *spans): msgs.append((priority.raw_text, identifier))
    try:
        with reports.handle_reports(handler):
            files = [parser.parse(path, source)]
            base, code = Compiler(output_charset=charset).compile_and_link_files(files)
        return base, bytes(code), msgs
    except reports.UnrecoverableError:
        return None, None, msgs
    except BaseException as e:   # anything else is an internal error
        return "EXC", type(e).__name__, msgs

def describe(r):
    if r[0] is None: return "REFUSED " + str([m[1] for m in r[2] if m[0] != "Warning"])
    if r[0] == "EXC": return "INTERNAL ERROR " + r[1]
    return "OK base=%o bytes=%s" % (r[0], r[1].hex())

# Finding 2: the body of '.repeat n { ... }' is compiled when n becomes known.  '. = X' decides
# *while it is compiled* whether it sets the link base or skips forward, by looking at whether a
# link base has been seen so far.  So moving 'n = 1' below the '.repeat' changes the meaning of
# the body, and the program flips between "refused" and "accepted".
HERE = os.path.dirname(os.path.abspath(__file__))
WORK = os.path.join(HERE, "work"); os.makedirs(WORK, exist_ok=True)
bad = 0

def compare(title, variants):
    global bad
    print(title)
    res = []
    for name, path, src in variants:
        r = assemble(path, src); res.append(r)
        print("  %-28s %-60s -> %s" % (name, src.replace("\n", " | "), describe(r)))
    if len(set((r[0], r[1]) for r in res)) > 1:
        print("  DEFECT: moving the definition 'n = ...' changes the outcome\n"); bad += 1
    else:
        print("  same outcome\n")

# (a) main file, '.link' at the end of the file
body = [".repeat n { . = . + 4 }", "nop", ".link 2000"]
compare("(a) '. = . + 4' in a repeat body, '.link' further down",
        [("n defined above", os.path.join(WORK, "a.mac"), "\n".join(["n = 1"] + body) + "\n"),
         ("n defined below", os.path.join(WORK, "a.mac"), "\n".join(body + ["n = 1"]) + "\n"),
         ("literal count (reference)", os.path.join(WORK, "a.mac"), "\n".join([".repeat 1 { . = . + 4 }"] + body[1:]) + "\n")])

# (b) the same inside an included file: no '.link' needed
for name, text in (("inc_top.mac", "n = 2\nnop\n.repeat n { . = . + 4 }\n"), ("inc_bot.mac", "nop\n.repeat n { . = . + 4 }\nn = 2\n")):
    with open(os.path.join(WORK, name), "w") as f: f.write(text)
compare("(b) included file 'nop / .repeat n { . = . + 4 }' with n = 2 above / below",
        [("n above (inc_top.mac)", os.path.join(WORK, "m.mac"), '.include "inc_top.mac"\n.word 1\n'),
         ("n below (inc_bot.mac)", os.path.join(WORK, "m.mac"), '.include "inc_bot.mac"\n.word 1\n')])

# (c) '.link' in a repeat body of an included file
for name, text in (("inc2_top.mac", "n = 1\n.repeat n { .link 3000 }\nX: .word X\n"), ("inc2_bot.mac", ".repeat n { .link 3000 }\nX: .word X\nn = 1\n")):
    with open(os.path.join(WORK, name), "w") as f: f.write(text)
compare("(c) included file '.repeat n { .link 3000 } / X: .word X' with n = 1 above / below",
        [("n above (inc2_top.mac)", os.path.join(WORK, "m.mac"), '.include "inc2_top.mac"\n'),
         ("n below (inc2_bot.mac)", os.path.join(WORK, "m.mac"), '.include "inc2_bot.mac"\n')])
sys.exit(1 if bad else 0)
