#!/usr/bin/env python
"""A comment (or a character literal) that contains '(' or ':' changes where a
branch / SOB goes.

Run as:  cd /tmp/wt/G04 && /venv/bin/python _out/1/demo.py
Exits 1 while the defect is present, 0 once it is repaired.
"""
import struct
import sys
sys.path.insert(0, "/tmp/wt/G04")
import pdpy11
assert pdpy11.__file__.startswith("/tmp/wt/G04/"), pdpy11.__file__
from pdpy11 import parser, reports, bk_encoding  # noqa: F401
from pdpy11.compiler import Compiler


def assemble(source):
    msgs = []

    def handler(priority, identifier, *spans):
        msgs.append((priority.raw_text, identifier))
    try:
        with reports.handle_reports(handler):
            files = [parser.parse("/tmp/wt/G04/_scratch/demo1.mac", source)]
            base, code = Compiler().compile_and_link_files(files)
        return base, bytes(code), msgs
    except reports.UnrecoverableError:
        return None, None, msgs


def branch_target(base, code, insn_addr, sob=False):
    word, = struct.unpack_from("<H", code, insn_addr - base)
    if sob:
        return insn_addr + 2 - 2 * (word & 0o77)
    disp = word & 0xFF
    disp -= 256 if disp > 127 else 0
    return insn_addr + 2 + 2 * disp


failures = []

# --- Variant A: only the TEXT OF A COMMENT differs -------------------------
# Local label 3 stands at address 5, the branch at address 6.  The operand is
# '3 +1' (the expression goes on in the next line, which the grammar allows),
# i.e. "local label 3 plus one" = 6 = the branch itself -> word 000777.
TEMPLATE = ".link 0\n.blkb 5\n3: .byte 0\n%s 3 ; %s\n+1\n"
for mnemonic, sob in (("br", False), ("sob r1,", True)):
    results = {}
    for comment in ("back to three", "back to (three)", "note: back to three"):
        base, code, msgs = assemble(TEMPLATE % (mnemonic, comment))
        results[comment] = None if base is None else branch_target(base, code, 6, sob)
        print(f"{mnemonic:8s} comment {comment!r:24} -> target "
              f"{'refused' if results[comment] is None else oct(results[comment])}  {msgs}")
    expected = 6  # label 3 (=5) + 1, whatever the comment says
    for comment, target in results.items():
        if target != expected:
            failures.append(f"A: '{mnemonic} 3 ; {comment}\\n+1' goes to {target!r}, "
                            f"expected {oct(expected)} (the comment must not matter)")

# --- Variant B: same thing in one line, a character literal ----------------
# '1+'a-'a' and '1+'(-'(' are both "local label 1 plus zero".
results = {}
for char in ("a", "(", ":"):
    src = ".link 1000\n1: nop\nbr 1+'%s-'%s\n" % (char, char)
    base, code, msgs = assemble(src)
    results[char] = None if base is None else branch_target(base, code, 0o1002)
    print(f"br 1+'{char}-'{char}  -> target "
          f"{'refused' if results[char] is None else oct(results[char])}  {msgs}")
for char, target in results.items():
    if target != 0o1000:
        failures.append(f"B: \"br 1+'{char}-'{char}\" gives {target!r}, expected 0o1000 "
                        f"(as with 'a)")

if failures:
    print("\nDEFECT PRESENT:")
    for failure in failures:
        print("  -", failure)
    sys.exit(1)
print("\nOK: comments and character literals do not influence branch targets")
sys.exit(0)
