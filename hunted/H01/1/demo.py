"""Finding 1: an instruction assembled at an ODD address is accepted silently.

First principles: every PDP-11 instruction word must lie on an even address
(an instruction fetch from an odd address is an odd-address trap).  A decoder
that reads the image as 16-bit words from the (even) load base must recover
'mov r0, r1' = 010001.  The assembler itself knows the rule: '.word' at an odd
address is an 'odd-address' error.
"""
import sys
sys.path.insert(0, "/tmp/wt/H01")
import pdpy11
assert pdpy11.__file__.startswith("/tmp/wt/H01/"), pdpy11.__file__
from pdpy11 import parser, reports, bk_encoding  # noqa: F401
from pdpy11.compiler import Compiler


def assemble(*sources, charset="bk"):
    """-> (base, bytes, msgs), or (None, None, msgs) when the assembler reports errors.
    Any other exception escaping from here is an internal error of the assembler."""
    msgs = []

    def handler(priority, identifier, *spans):
        msgs.append((priority.raw_text, identifier))
    try:
        with reports.handle_reports(handler):
            files = [parser.parse("/tmp/wt/H01/_scratch/f%d.mac" % i, s) for i, s in enumerate(sources)]
            base, code = Compiler(output_charset=charset).compile_and_link_files(files)
        return base, bytes(code), msgs
    except reports.UnrecoverableError:
        return None, None, msgs


def words(code):
    return [code[i] | (code[i + 1] << 8) for i in range(0, len(code) - 1, 2)]


def octs(ws):
    return " ".join("%06o" % w for w in ws)


bad = False
for src in (".byte 1\nmov r0, r1\n",                 # smallest input
            ".ascii \"abc\"\nstart: mov #1, r0\n",  # the classic: odd-length text, no .even
            ".link 1001\nmov r0, r1\n"):            # odd link base
    base, code, msgs = assemble(src)
    errors = [m for m in msgs if m[0] == "Error"]
    if code is None or errors:
        print("OK  (diagnosed)", repr(src), msgs)
        continue
    # accepted without any error: then the instruction must at least sit on an even address
    # and be recoverable by a word-wise decoder
    at = [a for a in range(base + (base & 1), base + len(code) - 1, 2)
          if code[a - base] | (code[a - base + 1] << 8) in (0o010001, 0o012700)]
    if not at:
        bad = True
        print("DEFECT", repr(src), "-> base %o, bytes %s, diagnostics %r" % (base, code.hex(), msgs))
        print("       no error, and no even address of the image holds the instruction word;")
        print("       the instruction was emitted at an odd address")
    else:
        print("OK  (padded)", repr(src), code.hex())

# contrast: the same situation with data IS diagnosed
print("for comparison, '.byte 1 / .word 5' ->", assemble(".byte 1\n.word 5\n")[2])
sys.exit(1 if bad else 0)
