"""Finding 3: relative ('x') and relative-deferred ('@x') operands are never range-checked.

First principles: a PDP-11 address has 16 bits.  'clr 200000' names an address
that does not exist; every other operand form with the same value is refused
('clr @#200000', 'clr 200000(r0)', 'mov #200000, r0', '.word 200000' are
'value-out-of-bounds').  In relative mode the value is silently reduced modulo
2**16, so 'clr 200000' assembles to exactly the words of 'clr 0', and a decoder
recovers operand address 000000, not the one written in the source.
"""
import sys
sys.path.insert(0, "/tmp/wt/H01")
import pdpy11
assert pdpy11.__file__.startswith("/tmp/wt/H01/"), pdpy11.__file__
from pdpy11 import parser, reports, bk_encoding  # noqa: F401
from pdpy11.compiler import Compiler


def assemble(*sources, charset="bk"):
    """-> (base, bytes, msgs), or (None, None, msgs) when the assembler reports errors.
    Any other exception escaping from here is an internal error of the assembler."""
    msgs = []

    def handler(priority, identifier, *spans):
        msgs.append((priority.raw_text, identifier))
    try:
        with reports.handle_reports(handler):
            files = [parser.parse("/tmp/wt/H01/_scratch/f%d.mac" % i, s) for i, s in enumerate(sources)]
            base, code = Compiler(output_charset=charset).compile_and_link_files(files)
        return base, bytes(code), msgs
    except reports.UnrecoverableError:
        return None, None, msgs


def words(code):
    return [code[i] | (code[i + 1] << 8) for i in range(0, len(code) - 1, 2)]


def octs(ws):
    return " ".join("%06o" % w for w in ws)

bad = False
for form, sibling in (("clr 200000", "clr 0"), ("clr @200000", "clr @0"), ("jmp 1000000", "jmp 0"),
                      ("mov x, @x\nx = 200002", "mov 2, @2"), ("ldf -200000, ac1", "ldf 0, ac1")):
    base, code, msgs = assemble(form + "\n")
    if code is None or any(m[0] == "Error" for m in msgs):
        print("OK  (diagnosed)", repr(form), msgs)
        continue
    same = assemble(sibling + "\n")[1]
    bad = True
    print("DEFECT", repr(form), "-> accepted without diagnostic:", octs(words(code)), msgs,
          "(identical to %r: %s)" % (sibling, code == same))
print("for comparison:")
for form in ("clr @#200000", "clr 200000(r0)", "mov #200000, r0", ".word 200000"):
    print("  ", repr(form), "->", assemble(form + "\n")[2])
sys.exit(1 if bad else 0)
