"""Finding 2: the last operand of an instruction continues across the end of the line.

After an operand the expression parser skips white space INCLUDING newlines and
comments and then looks for an infix operator or '('.  Every statement on the
next line that begins with a character that is also an infix operator
('_', '$', '-', '+', '%', '*', '^', '(' ...) is glued to the operand.

First principles: one statement per line.
  mov #1, r0            -> 012700 000001
  $loop: dec r0         -> 005300        ('$loop' / '_loop' are legal symbol names)
and
  mov r0, @#100         -> 010037 000100
  -1                    -> 177777        (a word list, as in 'nop' / '-1')
"""
import sys
sys.path.insert(0, "/tmp/wt/H01")
import pdpy11
assert pdpy11.__file__.startswith("/tmp/wt/H01/"), pdpy11.__file__
from pdpy11 import parser, reports, bk_encoding  # noqa: F401
from pdpy11.compiler import Compiler


def assemble(*sources, charset="bk"):
    """-> (base, bytes, msgs), or (None, None, msgs) when the assembler reports errors.
    Any other exception escaping from here is an internal error of the assembler."""
    msgs = []

    def handler(priority, identifier, *spans):
        msgs.append((priority.raw_text, identifier))
    try:
        with reports.handle_reports(handler):
            files = [parser.parse("/tmp/wt/H01/_scratch/f%d.mac" % i, s) for i, s in enumerate(sources)]
            base, code = Compiler(output_charset=charset).compile_and_link_files(files)
        return base, bytes(code), msgs
    except reports.UnrecoverableError:
        return None, None, msgs


def words(code):
    return [code[i] | (code[i + 1] << 8) for i in range(0, len(code) - 1, 2)]


def octs(ws):
    return " ".join("%06o" % w for w in ws)

cases = [
    # (source, expected words)
    ("mov #1, r0\n$loop: dec r0\n", [0o012700, 1, 0o005300]),
    ("mov #1, r0\n_loop: dec r0\n", [0o012700, 1, 0o005300]),
    ("clr x\n_f: nop\nx: .word 0\n", [0o005067, 2, 0o000240, 0]),
    ("mov r0, @#100 ; comment\n-1\n", [0o010037, 0o100, 0o177777]),
    ("emt 5\n+1\n", [0o104005, 1]),
]
bad = False
for src, exp in cases:
    base, code, msgs = assemble(src)
    if code is None:
        bad = True
        print("DEFECT (legal program refused)", repr(src), "->", msgs, " expected", octs(exp))
    elif words(code) != exp or len(code) != 2 * len(exp):
        bad = True
        print("DEFECT (wrong words, no diagnostic)", repr(src), "->", octs(words(code)), msgs, " expected", octs(exp))
    else:
        print("OK ", repr(src), octs(words(code)))

# control: the same second lines are fine after a statement that has no operand
for src in ("nop\n$loop: dec r0\n", "nop\n-1\n"):
    print("control", repr(src), "->", octs(words(assemble(src)[1])))
sys.exit(1 if bad else 0)
