"""Finding 4: a local label cannot be referenced from inside a '.repeat' body.

First principles: the scope of a local label (1$, 2$, numeric '1:') is the
region between two global labels; '.repeat n { ... }' is an unrolling device
inside that region ('Labels cannot be defined inside .repeat', so the only
labels a body can branch to are outer ones).  Global labels work from inside
the body, local ones are reported as undefined.

  .repeat 2 { bcs 1$ }      bcs .+4  = 103401
  1$: nop                   bcs .+2  = 103400 ; nop = 000240
"""
import sys
sys.path.insert(0, "/tmp/wt/H01")
import pdpy11
assert pdpy11.__file__.startswith("/tmp/wt/H01/"), pdpy11.__file__
from pdpy11 import parser, reports, bk_encoding  # noqa: F401
from pdpy11.compiler import Compiler


def assemble(*sources, charset="bk"):
    """-> (base, bytes, msgs), or (None, None, msgs) when the assembler reports errors.
    Any other exception escaping from here is an internal error of the assembler."""
    msgs = []

    def handler(priority, identifier, *spans):
        msgs.append((priority.raw_text, identifier))
    try:
        with reports.handle_reports(handler):
            files = [parser.parse("/tmp/wt/H01/_scratch/f%d.mac" % i, s) for i, s in enumerate(sources)]
            base, code = Compiler(output_charset=charset).compile_and_link_files(files)
        return base, bytes(code), msgs
    except reports.UnrecoverableError:
        return None, None, msgs


def words(code):
    return [code[i] | (code[i + 1] << 8) for i in range(0, len(code) - 1, 2)]


def octs(ws):
    return " ".join("%06o" % w for w in ws)

cases = [
    (".repeat 2 { bcs 1$ }\n1$: nop\n", [0o103401, 0o103400, 0o000240]),
    ("1$: .repeat 2 { sob r0, 1$ }\n", [0o077001, 0o077002]),
    ("1$: .repeat 2 { mov #1$, r0 }\n", [0o012700, 0o1000, 0o012700, 0o1000]),
    ("1: nop\n.repeat 2 { br 1 }\n", [0o000240, 0o000776, 0o000775]),
]
bad = False
for src, exp in cases:
    base, code, msgs = assemble(src)
    if code is None:
        bad = True
        print("DEFECT (legal program refused)", repr(src), "->", sorted(set(msgs)), " expected", octs(exp))
    elif words(code) != exp:
        bad = True
        print("DEFECT (wrong words)", repr(src), "->", octs(words(code)), " expected", octs(exp))
    else:
        print("OK ", repr(src), octs(words(code)))
# control: a global label is visible from the body, and the local one is visible right after the block
for src in (".repeat 2 { bcs x }\nx: nop\n", "1$: .repeat 2 { nop }\nsob r0, 1$\n"):
    print("control", repr(src), "->", octs(words(assemble(src)[1])))
sys.exit(1 if bad else 0)
