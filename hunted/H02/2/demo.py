"""A size that is the distance between a label of one linked file (or included file) and a label outside of it
is refused as 'recursive', although the very same text in ONE file assembles."""
import os, struct, sys
sys.path.insert(0, os.path.join(os.path.dirname(os.path.abspath(__file__)), ".."))
from common import assemble, show

work = os.path.join(os.path.dirname(os.path.abspath(__file__)), "work")
os.makedirs(work, exist_ok=True)
P = lambda n: os.path.join(work, n)

part1 = (".blkb l - q\n"       # reserve as many bytes as lie between q and l: always 2 (the '.word 7')
         "q:: .word 7\n")
part2 = ("l:: .word l\n")
# first principles: blkb = l - q = 2 bytes; q = base+2; l = base+4
expected = bytes(2) + struct.pack("<H", 7) + struct.pack("<H", 0o1000 + 4)

r_one = assemble([(P("whole.mac"), part1 + part2)])
r_two = assemble([(P("part1.mac"), part1), (P("part2.mac"), part2)])
# include variant: the included file pads with '.even' BEFORE q, nothing but the word lies between q and l
with open(P("part1inc.mac"), "w") as f:
    f.write(".byte 1\n.even\nq:: .word 7\n")
r_flat = assemble([(P("flat.mac"), '.blkb l - q\n.byte 1\n.even\nq:: .word 7\nl: .word l\n')])
r_inc = assemble([(P("main.mac"), '.blkb l - q\n.include "part1inc.mac"\nl: .word l\n')])
expected_inc = bytes(2) + bytes([1, 0]) + struct.pack("<2H", 7, 0o1000 + 6)
# the same effect on a link base computed from labels (a documented, tested use of '.link'), no forward size involved
r_link1 = assemble([(P("w.mac"), ".byte 1\n.even\nq:: .word q\nl: .word l\n.link 2000 + l - q\n")])
r_link2 = assemble([(P("a.mac"), ".byte 1\n.even\nq:: .word q\n"), (P("b.mac"), "l: .word l\n.link 2000 + l - q\n")])

show("one file              ", r_one)
show("two linked files      ", r_two)
show("include text inline   ", r_flat)
show("label inside .include ", r_inc)
show(".link expr, one file  ", r_link1)
show(".link expr, two files ", r_link2)

bad = False
assert r_one[0] == 0o1000 and r_one[1] == expected, "control changed"
assert r_flat[0] == 0o1000 and r_flat[1] == expected_inc, "control changed"
for tag, r, expected in (("two linked files", r_two, expected), ("include", r_inc, expected_inc)):
    if r[0] != 0o1000 or r[1] != expected or any(m[0] != "Warning" for m in r[2]):
        print("DEFECT (%s): expected base 1000 and bytes %s without errors, got %s" % (tag, expected.hex(" "), r[2] or r[1]))
        bad = True
exp_link = bytes([1, 0]) + struct.pack("<2H", 0o2002 + 2, 0o2002 + 4)
assert r_link1[0] == 0o2002 and r_link1[1] == exp_link, "control changed"
if r_link2[0] != 0o2002 or r_link2[1] != exp_link:
    print("DEFECT (.link expression across files): expected base 2002 and bytes %s, got %s" % (exp_link.hex(" "), r_link2[2] or r_link2[1]))
    bad = True
sys.exit(1 if bad else 0)
