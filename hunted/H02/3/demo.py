"""'. = . + n' between two labels makes their distance unusable as the size of an earlier statement,
although '.blkb n' at the same place works."""
import os, struct, sys
sys.path.insert(0, os.path.join(os.path.dirname(os.path.abspath(__file__)), ".."))
from common import assemble, show

work = os.path.join(os.path.dirname(os.path.abspath(__file__)), "work")
os.makedirs(work, exist_ok=True)
P = lambda n: os.path.join(work, n)

def prog(gap):
    return (".link 1000\n"
            ".blkb b - a\n"        # as many bytes as a..b spans: 2 + 4 = 6, independent of this block
            "a: .word 1\n"
            + gap + "\n"           # 4 bytes skipped
            "b: .word b\n")
# first principles: 6 zero bytes, 01 00, 4 zero bytes, b = 1000 + 6 + 2 + 4 = 1014
expected = bytes(6) + struct.pack("<H", 1) + bytes(4) + struct.pack("<H", 0o1014)

r_blkb = assemble([(P("blkb.mac"), prog(".blkb 4"))])
r_skip = assemble([(P("skip.mac"), prog(". = . + 4"))])
r_skip2 = assemble([(P("skip2.mac"), prog(". = a + 6"))])
# the same with the distance used for the link base
r_l1 = assemble([(P("l1.mac"), ".link 1000 + b - a\na: .word 1\n.blkb 4\nb: .word b\n")])
r_l2 = assemble([(P("l2.mac"), ".link 1000 + b - a\na: .word 1\n. = . + 4\nb: .word b\n")])
show("gap = .blkb 4      ", r_blkb)
show("gap = . = . + 4    ", r_skip)
show("gap = . = a + 6    ", r_skip2)
show(".link 1000+b-a blkb", r_l1)
show(".link 1000+b-a skip", r_l2)
assert r_blkb[0] == 0o1000 and r_blkb[1] == expected, "control changed"
assert r_l1[0] == 0o1006 and r_l1[1] == struct.pack("<H", 1) + bytes(4) + struct.pack("<H", 0o1006 + 6), "control changed"
bad = False
for tag, r in (("'. = . + 4'", r_skip), ("'. = a + 6'", r_skip2)):
    if r[0] != 0o1000 or r[1] != expected or any(m[0] != "Warning" for m in r[2]):
        print("DEFECT with %s: expected the same image as with '.blkb 4' (%s), got %s" % (tag, expected.hex(" "), r[2] or r[1])); bad = True
if r_l2[0] != r_l1[0] or r_l2[1] != r_l1[1]:
    print("DEFECT with '.link 1000 + b - a': expected base 1006 as with '.blkb 4', got %s" % (r_l2[2] or r_l2[1],)); bad = True
sys.exit(1 if bad else 0)
