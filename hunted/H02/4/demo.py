"""A local label of the enclosing scope has no value inside a '.repeat' body."""
import os, struct, sys
sys.path.insert(0, os.path.join(os.path.dirname(os.path.abspath(__file__)), ".."))
from common import assemble, show

work = os.path.join(os.path.dirname(os.path.abspath(__file__)), "work")
os.makedirs(work, exist_ok=True)
P = lambda n: os.path.join(work, n)

def prog(name):
    return ("entry:\n"
            "%s: nop\n"
            ".repeat 2 {\n"
            "    br %s\n"
            "    .word %s\n"
            "}\n" % (name, name, name))
# first principles (base 1000): nop=000240; br at 1002 -> (1000-1004)/2 = -2 -> 000776; .word 1000;
# br at 1006 -> (1000-1010)/2 = -4 -> 000774; .word 1000
expected = struct.pack("<5H", 0o240, 0o776, 0o1000, 0o774, 0o1000)
r_glob = assemble([(P("g.mac"), prog("loop"))])
r_loc = assemble([(P("l.mac"), prog("1$"))])
show("global label 'loop'", r_glob)
show("local label '1$'   ", r_loc)
assert r_glob[0] == 0o1000 and r_glob[1] == expected, "control changed"
bad = False
for tag, r in (("1$", r_loc),):
    if r[0] != 0o1000 or r[1] != expected or any(m[0] != "Warning" for m in r[2]):
        print("DEFECT: local label %s is defined two lines above, in the same local scope, but the repeat body cannot see it: %s" % (tag, sorted(set(m[1] for m in r[2])) or r[1])); bad = True
sys.exit(1 if bad else 0)
