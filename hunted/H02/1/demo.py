"""A '.include' whose file name is only known after a later definition advances the address by 0 bytes."""
import os, struct, sys
sys.path.insert(0, os.path.join(os.path.dirname(os.path.abspath(__file__)), ".."))
from common import assemble, show

work = os.path.join(os.path.dirname(os.path.abspath(__file__)), "work")
os.makedirs(work, exist_ok=True)
with open(os.path.join(work, "inc.mac"), "w") as f:
    f.write(".word 1, 2, 3\n")          # 6 bytes, no labels

main = ('.include "inc" <dot> "mac"\n'   # "inc" + chr(dot) + "mac"; dot is defined below
        'l: .word l, .\n'
        'dot = 56\n')                    # 56 (octal) = '.'
# control: the same program with the name spelled out
ctrl = ('.include "inc.mac"\n'
        'l: .word l, .\n'
        'dot = 56\n')

r_ctrl = assemble([(os.path.join(work, "main.mac"), ctrl)])
r = assemble([(os.path.join(work, "main.mac"), main)])
show("control (literal name)", r_ctrl)
show("forward-defined name  ", r)

base, code, msgs = r
if base is None or any(m[0] != "Warning" for m in msgs):
    print("the program is now refused with a diagnostic - no silent misplacement any more")
    sys.exit(0)
# first principles: the include contributes 6 bytes, so 'l' sits at offset 6 of the image
assert code[:6] == struct.pack("<3H", 1, 2, 3), code
l_value, dot_value = struct.unpack_from("<2H", code, 6)
true_addr = base + 6
print("label l / '.' as seen by the program: %o / %o ; address where that statement's bytes really are: %o" % (l_value, dot_value, true_addr))
if l_value != true_addr or dot_value != true_addr:
    print("DEFECT: no diagnostic, yet the label after the include is %d bytes lower than where its bytes land" % (true_addr - l_value))
    sys.exit(1)
print("ok")
sys.exit(0)
