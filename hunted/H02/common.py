# Shared helper for the demos: assembles sources in-process with the UNMODIFIED pdpy11 of this worktree.
import os, sys
ROOT = "/tmp/wt/H02"
sys.path.insert(0, ROOT)
import pdpy11
assert pdpy11.__file__.startswith(ROOT + "/"), pdpy11.__file__
from pdpy11 import parser, reports, bk_encoding  # noqa
from pdpy11.compiler import Compiler


def assemble(named_sources, charset="bk"):
    """named_sources: list of (absolute path, text). Returns (base, bytes, messages) or (None, None, messages)."""
    msgs = []

    def handler(priority, identifier, *spans):
        msgs.append((priority.raw_text, identifier, spans[0][2].split("\n")[0] if spans else ""))
    try:
        with reports.handle_reports(handler):
            files = [parser.parse(p, s) for p, s in named_sources]
            base, code = Compiler(output_charset=charset).compile_and_link_files(files)
        return base, bytes(code), msgs
    except reports.UnrecoverableError:
        return None, None, msgs


def show(tag, result):
    base, code, msgs = result
    print("%s: base=%s bytes=%s messages=%s" % (tag, None if base is None else oct(base), None if code is None else code.hex(" "), msgs))
