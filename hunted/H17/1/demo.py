"""A metacommand with a literal text operand (.title/.sbttl/.error) whose text starts with ';'"""
import os, sys
# --- helper (identical in all demos) ---
sys.path.insert(0, "/tmp/wt/H17")
import pdpy11
assert pdpy11.__file__.startswith("/tmp/wt/H17/"), pdpy11.__file__
from pdpy11 import parser, reports, bk_encoding  # noqa
from pdpy11.compiler import Compiler


def linecol(code, pos):
    """line:column from first principles: lines split at LF, a tab counts as 4 columns"""
    line = code.count("\n", 0, pos) + 1
    start = code.rfind("\n", 0, pos) + 1
    col = 1 + sum(4 if ch == "\t" else 1 for ch in code[start:pos])
    return line, col


def assemble(*sources, charset="bk"):
    """returns (base, code, diagnostics); a diagnostic is (priority, identifier, [(file, startpos, endpos, repr(start), repr(end), text)])"""
    msgs = []

    def handler(priority, identifier, *spans):
        msgs.append((priority.raw_text, identifier,
                     [(s.filename, s.pos, e.pos, repr(s), repr(e), t) for s, e, t in spans]))
    try:
        with reports.handle_reports(handler):
            files = [parser.parse("/tmp/wt/H17/_scratch/f%d.mac" % i, s) for i, s in enumerate(sources)]
            base, code = Compiler(output_charset=charset).compile_and_link_files(files)
        return base, bytes(code), msgs
    except reports.UnrecoverableError:
        return None, None, msgs
# --- end of helper ---

bad = False

# (a) the diagnostic's range ends outside the file
src = ".error ; stop here\nnop\n"
base, code, msgs = assemble(src)
print("source:", repr(src), "(%d characters, last position is line 3 column 1)" % len(src))
for prio, ident, spans in msgs:
    for fn, s, e, rs, re_, text in spans:
        print("  %s %s: %s .. %s  (%s)" % (prio, ident, rs, re_, text.split("\n")[0]))
        if not 0 <= s <= e <= len(src):
            print("  -> DEFECT: the range [%d, %d) does not lie inside the file (length %d)" % (s, e, len(src)))
            bad = True
if not msgs:
    print("  -> DEFECT: '.error' produced no diagnostic"); bad = True

# (b) the same mechanism swallows the statements that follow
src = ".title ; demo program, version 1\nmov r0, r1\nclr r2\n"
base, code, msgs = assemble(src)
print("source:", repr(src))
print("  diagnostics:", [(p, i, sp[0][3], sp[0][4]) for p, i, sp in msgs])
print("  emitted:", code)
expected = bytes([0o001, 0o020, 0o002, 0o012])  # mov r0,r1 = 010001 ; clr r2 = 005002
errors = [m for m in msgs if m[0] == "Error"]
if not errors and code != expected:
    print("  -> DEFECT: accepted without error, yet 'mov r0, r1' / 'clr r2' were not assembled (expected %r)" % expected)
    bad = True
for prio, ident, spans in msgs:
    for fn, s, e, rs, re_, text in spans:
        if not 0 <= s <= e <= len(src):
            print("  -> DEFECT: range %s .. %s lies outside the file (which ends at %d:%d)" % ((rs, re_) + linecol(src, len(src)))); bad = True
for prio, ident, spans in errors:
    if linecol(src, spans[0][1])[0] != 1:
        print("  -> DEFECT: false error %s at %s about a correct statement" % (ident, spans[0][3])); bad = True

sys.exit(1 if bad else 0)
