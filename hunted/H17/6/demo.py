"""The main file is decoded as UTF-8, an included file with the locale's encoding: non-ASCII text before a fault in an included file"""
import os, shutil, subprocess, sys, tempfile
sys.path.insert(0, "/tmp/wt/H17")

work = tempfile.mkdtemp(prefix="h17_6_", dir="/tmp/wt/H17/_scratch" if os.path.isdir("/tmp/wt/H17/_scratch") else None)
body = "; комментарий по-русски\n\t.ascii \"привет\"\t; щ\n\t.word\tundef1\n"
with open(os.path.join(work, "inc.mac"), "w", encoding="utf-8") as f:
    f.write(body)
with open(os.path.join(work, "main.mac"), "w", encoding="utf-8") as f:
    f.write("nop\n.include \"inc.mac\"\n")

# position of the planted fault (undefined symbol) from first principles
pos = body.index("undef1")
line = body.count("\n", 0, pos) + 1
start = body.rfind("\n", 0, pos) + 1
col = 1 + sum(4 if ch == "\t" else 1 for ch in body[start:pos])
want_inc = "%s:%d:%d: Error" % (os.path.join(work, "inc.mac"), line, col)


def run(path, env_extra):
    env = dict(os.environ, **env_extra)
    p = subprocess.run(["/venv/bin/python", "-m", "pdpy11", "--report-format", "bare", path, "-o", os.path.join(work, "o.bin")],
                       cwd="/tmp/wt/H17", env=env, stdout=subprocess.PIPE, stderr=subprocess.STDOUT, universal_newlines=True)
    return p.stdout.strip()

# A locale whose encoding is not UTF-8 (here plain ASCII; think of cp1251/cp1252 on Windows, ISO-8859-x elsewhere)
NON_UTF8 = {"LC_ALL": "C", "LANG": "C", "PYTHONCOERCECLOCALE": "0", "PYTHONUTF8": "0"}

bad = False
direct = run(os.path.join(work, "inc.mac"), NON_UTF8)
print("the file given on the command line, non-UTF-8 locale:\n   ", direct)
included = run(os.path.join(work, "main.mac"), NON_UTF8)
print("the same file reached through .include, non-UTF-8 locale:\n   ", included)
included_utf8 = run(os.path.join(work, "main.mac"), {"LC_ALL": "C.UTF-8", "PYTHONUTF8": "1"})
print("the same, UTF-8 locale:\n   ", included_utf8)
print("expected first diagnostic everywhere:", want_inc)

if not direct.startswith(want_inc):
    print("-> unexpected: the directly given file is not diagnosed at the planted token"); bad = True
if not included.startswith(want_inc):
    print("-> DEFECT: the fault planted in the included file (valid UTF-8, accepted as a main file under the very same locale) is not\n"
          "   reported at its token: the include is decoded with the locale's encoding, the false claim 'not in UTF-8' is made at the\n"
          "   '.include' line of the other file (with an 8-bit locale the file would be mis-decoded silently: shifted columns, wrong string bytes)")
    bad = True
shutil.rmtree(work, ignore_errors=True)
sys.exit(1 if bad else 0)
