"""A '<expr>' chunk that follows another string chunk starts, for diagnostics, at the blanks in front of it"""
import os, sys
# --- helper (identical in all demos) ---
sys.path.insert(0, "/tmp/wt/H17")
import pdpy11
assert pdpy11.__file__.startswith("/tmp/wt/H17/"), pdpy11.__file__
from pdpy11 import parser, reports, bk_encoding  # noqa
from pdpy11.compiler import Compiler


def linecol(code, pos):
    """line:column from first principles: lines split at LF, a tab counts as 4 columns"""
    line = code.count("\n", 0, pos) + 1
    start = code.rfind("\n", 0, pos) + 1
    col = 1 + sum(4 if ch == "\t" else 1 for ch in code[start:pos])
    return line, col


def assemble(*sources, charset="bk"):
    """returns (base, code, diagnostics); a diagnostic is (priority, identifier, [(file, startpos, endpos, repr(start), repr(end), text)])"""
    msgs = []

    def handler(priority, identifier, *spans):
        msgs.append((priority.raw_text, identifier,
                     [(s.filename, s.pos, e.pos, repr(s), repr(e), t) for s, e, t in spans]))
    try:
        with reports.handle_reports(handler):
            files = [parser.parse("/tmp/wt/H17/_scratch/f%d.mac" % i, s) for i, s in enumerate(sources)]
            base, code = Compiler(output_charset=charset).compile_and_link_files(files)
        return base, bytes(code), msgs
    except reports.UnrecoverableError:
        return None, None, msgs
# --- end of helper ---

bad = False
CASES = [
    # (source, identifier expected)
    (".rad50 /ABC/ <50>\n", "value-out-of-bounds"),                     # 50 octal = 40: not a radix-50 code
    ("\t.rad50\t/ABC/\t\t<50>\n", "value-out-of-bounds"),               # tabs in front
    (".rad50 /ABC/ ; щи\n\t<50>\n", "value-out-of-bounds"),             # chunk on a continuation line
    ('insert_file "a" <4200000> ".bin"\n', "value-out-of-bounds"),       # not a Unicode code point
]
for src, ident in CASES:
    lt = src.index("<")
    base, code, msgs = assemble(src)
    assert msgs and msgs[0][1] == ident, msgs
    fn, s, e, rs, re_, text = msgs[0][2][0]
    exp = linecol(src, lt)
    got = linecol(src, s)
    print("source %r" % src)
    print("  first reported position %s (%s)" % (rs, text.split("\n")[0]))
    print("  the offending chunk '<...>' starts at %d:%d; character at the reported position: %r" % (exp[0], exp[1], src[s]))
    # the bracket itself or the expression inside it would both be acceptable
    if got != exp and got != linecol(src, lt + 1):
        print("  -> DEFECT: the position is where the PREVIOUS chunk ended, not where the faulty chunk is")
        bad = True

# when the chunk comes first the position is right, which shows the intent
src = ".rad50 <50> /ABC/\n"
base, code, msgs = assemble(src)
print("for comparison %r -> %s" % (src, msgs[0][2][0][3]))
sys.exit(1 if bad else 0)
