"""'Expected operand after comma in an instruction' is reported in front of the blanks/comments that precede the comma"""
import os, sys
# --- helper (identical in all demos) ---
sys.path.insert(0, "/tmp/wt/H17")
import pdpy11
assert pdpy11.__file__.startswith("/tmp/wt/H17/"), pdpy11.__file__
from pdpy11 import parser, reports, bk_encoding  # noqa
from pdpy11.compiler import Compiler


def linecol(code, pos):
    """line:column from first principles: lines split at LF, a tab counts as 4 columns"""
    line = code.count("\n", 0, pos) + 1
    start = code.rfind("\n", 0, pos) + 1
    col = 1 + sum(4 if ch == "\t" else 1 for ch in code[start:pos])
    return line, col


def assemble(*sources, charset="bk"):
    """returns (base, code, diagnostics); a diagnostic is (priority, identifier, [(file, startpos, endpos, repr(start), repr(end), text)])"""
    msgs = []

    def handler(priority, identifier, *spans):
        msgs.append((priority.raw_text, identifier,
                     [(s.filename, s.pos, e.pos, repr(s), repr(e), t) for s, e, t in spans]))
    try:
        with reports.handle_reports(handler):
            files = [parser.parse("/tmp/wt/H17/_scratch/f%d.mac" % i, s) for i, s in enumerate(sources)]
            base, code = Compiler(output_charset=charset).compile_and_link_files(files)
        return base, bytes(code), msgs
    except reports.UnrecoverableError:
        return None, None, msgs
# --- end of helper ---

bad = False
CASES = [
    "mov r0 ,\n",                                                  # one blank before the comma
    "\tmov\tr0\t\t, ; second operand forgotten\n",                 # tabs before the comma
    "mov r0 ; first operand\n\t, ; second operand forgotten\n",    # comma on the next line, after a comment
    ".word 1, 2 ; щ\n\t\t,\n",                                     # explicit .word goes the same way
]
for src in CASES:
    comma = src.rindex(",")
    base, code, msgs = assemble(src)
    assert msgs and msgs[0][1] == "invalid-operand", msgs
    fn, s, e, rs, re_, text = msgs[0][2][0]
    exp = linecol(src, comma)
    got = linecol(src, s)
    print("source %r" % src)
    print("  first reported position %s (%s); the dangling comma is at %d:%d; character there: %r"
          % (rs, text, exp[0], exp[1], src[s]))
    if got != exp:
        print("  -> DEFECT: the first position is the blank/comment in front of the comma, not the comma")
        bad = True

# the sibling code path (implicit word list) gets it right, which shows the intent
src = "v = 5\nv, 2 ; x\n\t,\n"
base, code, msgs = assemble(src)
fn, s, e, rs, re_, text = msgs[0][2][0]
print("for comparison, word list %r -> %s, comma at %s" % (src, rs, linecol(src, src.rindex(","))))

sys.exit(1 if bad else 0)
