"""GraphicalHandler: the highlighted range ignores tabs inside the range, and collapses for multi-line ranges on lines with tabs"""
import contextlib, io, os, re, sys
# --- helper (identical in all demos) ---
sys.path.insert(0, "/tmp/wt/H17")
import pdpy11
assert pdpy11.__file__.startswith("/tmp/wt/H17/"), pdpy11.__file__
from pdpy11 import parser, reports, bk_encoding  # noqa
from pdpy11.compiler import Compiler


def linecol(code, pos):
    """line:column from first principles: lines split at LF, a tab counts as 4 columns"""
    line = code.count("\n", 0, pos) + 1
    start = code.rfind("\n", 0, pos) + 1
    col = 1 + sum(4 if ch == "\t" else 1 for ch in code[start:pos])
    return line, col


def assemble(*sources, charset="bk"):
    """returns (base, code, diagnostics); a diagnostic is (priority, identifier, [(file, startpos, endpos, repr(start), repr(end), text)])"""
    msgs = []

    def handler(priority, identifier, *spans):
        msgs.append((priority.raw_text, identifier,
                     [(s.filename, s.pos, e.pos, repr(s), repr(e), t) for s, e, t in spans]))
    try:
        with reports.handle_reports(handler):
            files = [parser.parse("/tmp/wt/H17/_scratch/f%d.mac" % i, s) for i, s in enumerate(sources)]
            base, code = Compiler(output_charset=charset).compile_and_link_files(files)
        return base, bytes(code), msgs
    except reports.UnrecoverableError:
        return None, None, msgs
# --- end of helper ---


def graphical(src):
    """run the unmodified default ('graphical') report handler and return what it prints"""
    buf = io.StringIO()
    with contextlib.redirect_stderr(buf):
        try:
            with reports.handle_reports(reports.GraphicalHandler()):
                Compiler().compile_and_link_files([parser.parse("/tmp/wt/H17/_scratch/f0.mac", src)])
        except reports.UnrecoverableError:
            pass
    return buf.getvalue()


def highlights(out):
    """[(terminal column, highlighted text)]: the handler re-prints the culprit with a red background at an absolute column"""
    res = []
    for m in re.finditer(r"\x1b\[(\d+)G\x1b\[48;5;52m(.*?)\x1b\[0m(?=\x1b\[\d+G|\n)", out):
        res.append((int(m.group(1)), re.sub(r"\x01.*?\x02", "", m.group(2))))
    return res


bad = False
# (source, text of the culprit token with tabs expanded, restricted to its first line)
CASES = [
    (".byte 1\t+\t400\n", "1    +    400"),           # value-out-of-bounds: the culprit is the expression 1+400
    ("mov\t#1,\tr0,\tr1\n", "mov    #1,    r0,    r1"),  # too many operands: the culprit is the statement
    ("\t\t\t\tclr r0,\n r1\n", "clr r0,"),              # statement continues on the next line
    ('\t\t.ascii "abc\n', '"abc'),               # unterminated string, range runs to the end of the file
]
for src, want in CASES:
    out = graphical(src)
    hl = highlights(out)
    assert len(hl) == 1, out
    col, text = hl[0]
    print("source %r" % src)
    print("  highlighted at terminal column %d: %r   (culprit, tabs as 4 blanks: %r)" % (col, text, want))
    if text != want and want not in text:
        print("  -> DEFECT: the highlighted range ends before the culprit does%s"
              % (" - it is EMPTY (end column before start column)" if text == "" else ""))
        bad = True
sys.exit(1 if bad else 0)
