"""missing-newline ('nop halt'): the span that is to show the second instruction is an empty range BEHIND its name"""
import os, sys
# --- helper (identical in all demos) ---
sys.path.insert(0, "/tmp/wt/H17")
import pdpy11
assert pdpy11.__file__.startswith("/tmp/wt/H17/"), pdpy11.__file__
from pdpy11 import parser, reports, bk_encoding  # noqa
from pdpy11.compiler import Compiler


def linecol(code, pos):
    """line:column from first principles: lines split at LF, a tab counts as 4 columns"""
    line = code.count("\n", 0, pos) + 1
    start = code.rfind("\n", 0, pos) + 1
    col = 1 + sum(4 if ch == "\t" else 1 for ch in code[start:pos])
    return line, col


def assemble(*sources, charset="bk"):
    """returns (base, code, diagnostics); a diagnostic is (priority, identifier, [(file, startpos, endpos, repr(start), repr(end), text)])"""
    msgs = []

    def handler(priority, identifier, *spans):
        msgs.append((priority.raw_text, identifier,
                     [(s.filename, s.pos, e.pos, repr(s), repr(e), t) for s, e, t in spans]))
    try:
        with reports.handle_reports(handler):
            files = [parser.parse("/tmp/wt/H17/_scratch/f%d.mac" % i, s) for i, s in enumerate(sources)]
            base, code = Compiler(output_charset=charset).compile_and_link_files(files)
        return base, bytes(code), msgs
    except reports.UnrecoverableError:
        return None, None, msgs
# --- end of helper ---

bad = False
for src in ["nop halt\n", "\tnop\t\thalt ; щ\n"]:
    second = src.index("halt") if "halt" in src else src.index("nop")
    name = "halt" if "halt" in src else "nop"
    base, code, msgs = assemble(src)
    msgs = [m for m in msgs if m[1] == "missing-newline"]
    assert msgs and len(msgs[0][2]) == 2, msgs
    fn, s, e, rs, re_, text = msgs[0][2][1]
    print("source %r" % src)
    print("  span 2 of missing-newline: %s .. %s (%s)" % (rs, re_, text.split("\n")[0]))
    print("  the instruction it talks about, %r, is at %d:%d" % ((name,) + linecol(src, second)))
    if linecol(src, s) != linecol(src, second):
        print("  -> DEFECT: the span starts (and ends) behind the name it is meant to show; text at the span: %r" % src[s:e])
        bad = True
sys.exit(1 if bad else 0)
