"""A code block '{ ... }' where none is accepted is reported at its closing brace, not where it starts"""
import os, sys
# --- helper (identical in all demos) ---
sys.path.insert(0, "/tmp/wt/H17")
import pdpy11
assert pdpy11.__file__.startswith("/tmp/wt/H17/"), pdpy11.__file__
from pdpy11 import parser, reports, bk_encoding  # noqa
from pdpy11.compiler import Compiler


def linecol(code, pos):
    """line:column from first principles: lines split at LF, a tab counts as 4 columns"""
    line = code.count("\n", 0, pos) + 1
    start = code.rfind("\n", 0, pos) + 1
    col = 1 + sum(4 if ch == "\t" else 1 for ch in code[start:pos])
    return line, col


def assemble(*sources, charset="bk"):
    """returns (base, code, diagnostics); a diagnostic is (priority, identifier, [(file, startpos, endpos, repr(start), repr(end), text)])"""
    msgs = []

    def handler(priority, identifier, *spans):
        msgs.append((priority.raw_text, identifier,
                     [(s.filename, s.pos, e.pos, repr(s), repr(e), t) for s, e, t in spans]))
    try:
        with reports.handle_reports(handler):
            files = [parser.parse("/tmp/wt/H17/_scratch/f%d.mac" % i, s) for i, s in enumerate(sources)]
            base, code = Compiler(output_charset=charset).compile_and_link_files(files)
        return base, bytes(code), msgs
    except reports.UnrecoverableError:
        return None, None, msgs
# --- end of helper ---

bad = False
CASES = [
    (".blkb 1 {\n\tnop\n\tnop\n}\n", "wrong-meta-operands"),
    ("clr r0 { nop }\n", "wrong-operands"),
    ("v = 5\nv 1 {\n nop ; щ\n\t\t}\n", None),
]
for src, ident in CASES:
    base, code, msgs = assemble(src)
    msgs = [m for m in msgs if "code block" in m[2][0][5]]
    assert msgs, "no diagnostic about the code block"
    fn, s, e, rs, re_, text = msgs[0][2][0]
    brace = src.index("{")
    inner = brace + 1 + (len(src[brace + 1:]) - len(src[brace + 1:].lstrip()))
    print("source %r" % src)
    print("  %s: %s .. %s (%s)" % (msgs[0][1], rs, re_, text))
    print("  the block starts at %d:%d ('{'); reported text: %r" % (linecol(src, brace) + (src[s:e],)))
    if linecol(src, s) not in (linecol(src, brace), linecol(src, inner)):
        print("  -> DEFECT: the diagnostic covers only the closing brace, %d line(s) below the start of the block"
              % (linecol(src, s)[0] - linecol(src, brace)[0]))
        bad = True
sys.exit(1 if bad else 0)
