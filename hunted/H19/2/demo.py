"""C19 finding 2: the listing is not written beside the first output file when
the file name of the first 'make_*' directive contains a forward-referenced
<char> chunk: that directive is then carried out late, after all the others.

Run:  cd /tmp/wt/H19 && /venv/bin/python _out/2/demo.py
"""
import os
import shutil
import subprocess
import sys

WORK = "/tmp/wt/H19/_out/2/work"
shutil.rmtree(WORK, ignore_errors=True)
os.makedirs(WORK)

SRC = (
    'a: .word 1\n'
    'make_bin "first" <c> ".bin"\n'    # first output directive: first1.bin
    'make_raw "second.raw"\n'          # second output directive
    'c = 61\n'                         # '1' -- defined below its use
)
with open(os.path.join(WORK, "prog.mac"), "w") as f:
    f.write(SRC)

env = dict(os.environ)
env["PYTHONPATH"] = "/tmp/wt/H19"
check = subprocess.run([sys.executable, "-c", "import pdpy11; print(pdpy11.__file__)"], cwd="/tmp/wt/H19", env=env, capture_output=True, text=True)
assert check.stdout.startswith("/tmp/wt/H19/"), check.stdout

r = subprocess.run([sys.executable, "-m", "pdpy11", os.path.join(WORK, "prog.mac"), "--lst", "--report-format", "bare"],
                   cwd="/tmp/wt/H19", env=env, capture_output=True, text=True, timeout=60)
print("exit status", r.returncode)
print(r.stderr.strip())
files = sorted(os.listdir(WORK))
print("files:", files)

if r.returncode != 0:
    print("assembly refused (a different outcome, not this defect)")
    sys.exit(0)

# Both outputs must exist; the first output file of the program is first1.bin
# (first make_* directive of the source), so the listing belongs in first1.lst
assert "first1.bin" in files and "second.raw" in files, files
if "first1.lst" in files and "second.lst" not in files:
    print("ok")
    sys.exit(0)
print("DEFECT: expected the listing beside the first output file (first1.bin -> first1.lst);"
      " got: %s" % [f for f in files if f.endswith(".lst")])
print("(the message order above also shows that the outputs are produced in swapped order)")
sys.exit(1)
