"""C19 finding 3: symbols of a file that is compiled more than once (a file included twice, included from
a '.repeat' body, included by two linked sources, or linked twice) are listed once per compilation under the one
heading of that file: the same name appears several times.

Run:  cd /tmp/wt/H19 && /venv/bin/python _out/3/demo.py
"""
import collections
import os
import shutil
import sys

sys.path.insert(0, "/tmp/wt/H19")
import pdpy11
assert pdpy11.__file__.startswith("/tmp/wt/H19/"), pdpy11.__file__
from pdpy11 import parser, reports, bk_encoding  # noqa: F401
from pdpy11.compiler import Compiler

WORK = "/tmp/wt/H19/_out/3/work"
shutil.rmtree(WORK, ignore_errors=True)
os.makedirs(WORK)

SOURCES = {
    # A buffer layout that the program needs twice (each copy has its own
    # private names, so including the file twice is legal)
    "buffer.mac": "head: .word 0\ntail: .word 0\ndata: .blkb 10\nsize = . - head\n",
    "a.mac": 'start: nop\n.include "buffer.mac"\n.include "buffer.mac"\n',
}
for name, text in SOURCES.items():
    with open(os.path.join(WORK, name), "w") as f:
        f.write(text)

msgs = []
def handler(priority, identifier, *spans):
    msgs.append((priority.raw_text, identifier))

try:
    with reports.handle_reports(handler):
        files = [parser.parse(os.path.join(WORK, n), SOURCES[n]) for n in ("a.mac",)]
        comp = Compiler()
        base, code = comp.compile_and_link_files(files)
except reports.UnrecoverableError:
    print("assembly refused:", msgs)
    sys.exit(0)

listing = comp.generate_listing()
print(listing)

# Judge: under each heading every name at most once
heading = None
seen = collections.Counter()
expect_heading = True
for line in listing.split("\n"):
    if line == "":
        expect_heading = True
        continue
    if expect_heading:
        heading = line
        expect_heading = False
        continue
    value, name = line.split(" ")
    seen[(heading, name)] += 1

dups = {k: n for k, n in seen.items() if n > 1}
if dups:
    for (heading, name), n in dups.items():
        print("DEFECT: symbol '%s' is listed %d times under %s" % (name, n, heading))
    sys.exit(1)
print("ok")
sys.exit(0)
