"""C19 finding 4: the listing is written in the locale's default encoding
(sources are read as UTF-8 regardless of the locale).  When the locale cannot
encode the source path that heads each section of the listing (or a symbol
name), '--lst' ends in the "unexpected internal compiler error" path and
leaves an empty .lst file behind, although the image was written.

Run:  cd /tmp/wt/H19 && /venv/bin/python _out/4/demo.py
"""
import os
import shutil
import subprocess
import sys

WORK = "/tmp/wt/H19/_out/4/work"
shutil.rmtree(WORK, ignore_errors=True)
SRCDIR = os.path.join(WORK, "игра")   # a Cyrillic directory name ("game")
os.makedirs(SRCDIR)
with open(os.path.join(SRCDIR, "prog.mac"), "w", encoding="utf-8") as f:
    f.write("start: mov #1, r0\nval = 5\n")

env = dict(os.environ)
env["PYTHONPATH"] = "/tmp/wt/H19"
# A plain POSIX locale without Python's UTF-8 coercion: what Python 3.6 (the
# minimum the README promises) does by default under LANG=C; comparable to a
# Windows code page that lacks the characters
env.update({"LC_ALL": "C", "LANG": "C", "PYTHONCOERCECLOCALE": "0", "PYTHONUTF8": "0"})
env.pop("PYTHONIOENCODING", None)

out_bin = os.path.join(WORK, "out.bin")
r = subprocess.run([sys.executable, "-m", "pdpy11", os.path.join(SRCDIR, "prog.mac"), "-o", out_bin, "--lst", "--report-format", "bare"],
                   cwd="/tmp/wt/H19", env=env, capture_output=True, timeout=60)
err = r.stderr.decode("utf-8", "replace")
print("exit status", r.returncode)
print(err.strip()[-900:])

lst = os.path.join(WORK, "out.lst")
lst_text = open(lst, "rb").read() if os.path.exists(lst) else None
print("out.bin written:", os.path.exists(out_bin), " out.lst:", None if lst_text is None else "%d bytes" % len(lst_text))

internal = "unexpected internal compiler error" in err
good = r.returncode == 0 and lst_text is not None and b"001000 start" in lst_text and b"000005 val" in lst_text
if good:
    print("ok")
    sys.exit(0)
if internal:
    print("DEFECT: internal compiler error (UnicodeEncodeError) while writing the listing of a legal program")
else:
    print("DEFECT: no complete listing was produced")
sys.exit(1)
