"""C19 finding 1: a label that follows an '.include' whose path contains a
forward-referenced <char> chunk is listed (and used) at an address that does
not count the bytes of the included file.

Run:  cd /tmp/wt/H19 && /venv/bin/python _out/1/demo.py
"""
import os
import shutil
import sys

sys.path.insert(0, "/tmp/wt/H19")
import pdpy11
assert pdpy11.__file__.startswith("/tmp/wt/H19/"), pdpy11.__file__
from pdpy11 import parser, reports, bk_encoding  # noqa: F401
from pdpy11.compiler import Compiler

WORK = "/tmp/wt/H19/_out/1/work"
shutil.rmtree(WORK, ignore_errors=True)
os.makedirs(WORK)

MAIN = (
    'first: .ascii "<1>"\n'
    '.include "inc" <c> ".mac"\n'      # "inc1.mac": the middle character is given by its code
    'after: .ascii "<2>"\n'
    'c = 61\n'                          # '1' -- defined BELOW the .include
)
INC = 'ilab: .ascii "<3>"\n'

with open(os.path.join(WORK, "main.mac"), "w") as f:
    f.write(MAIN)
with open(os.path.join(WORK, "inc1.mac"), "w") as f:
    f.write(INC)

msgs = []
def handler(priority, identifier, *spans):
    msgs.append((priority.raw_text, identifier))

try:
    with reports.handle_reports(handler):
        path = os.path.join(WORK, "main.mac")
        comp = Compiler()
        base, code = comp.compile_and_link_files([parser.parse(path, MAIN)])
        code = bytes(code)
except reports.UnrecoverableError:
    # Refusing the program would be a different (acceptable) outcome
    print("assembly refused:", msgs)
    sys.exit(0)

listing = comp.generate_listing()
print("diagnostics:", msgs)
print("image: base=%o %r" % (base, code))
print(listing)

listed = {}
for line in listing.split("\n"):
    parts = line.split(" ")
    if len(parts) == 2 and parts[0].lstrip("-").isdigit():
        listed[parts[1]] = int(parts[0], 8)

bad = False
for name, marker in (("first", b"<1>"), ("ilab", b"<3>"), ("after", b"<2>")):
    where = base + code.index(marker)      # address of the byte that follows the label
    print("%-6s listed %06o, its byte lies at %06o in the image" % (name, listed[name], where))
    if listed[name] != where:
        bad = True

if bad:
    print("DEFECT: a listed label address is not the address of the byte following the label")
    sys.exit(1)
print("ok")
sys.exit(0)
