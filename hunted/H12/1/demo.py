"""C12 finding 1: a '. = X' that follows code in a program whose base is not set yet is taken for the definition of the load address instead of a forward skip."""
import os, sys
ROOT = "/tmp/wt/H12"
sys.path.insert(0, ROOT)
import pdpy11
assert pdpy11.__file__.startswith(ROOT + "/"), pdpy11.__file__
from pdpy11 import parser, reports, bk_encoding  # noqa: F401
from pdpy11.compiler import Compiler

WORK = os.path.join(ROOT, "_out", "_work")
os.makedirs(WORK, exist_ok=True)


def write(name, text):
    """create a file next to the main sources (for '.include')"""
    with open(os.path.join(WORK, name), "w") as f:
        f.write(text)


def assemble(*sources):
    """-> (base, code, messages); base is None when the program is refused.
    Any exception other than reports.UnrecoverableError escapes (= internal error)."""
    msgs = []

    def handler(priority, identifier, *spans):
        msgs.append((priority.raw_text, identifier, spans[0][2].split("\n")[0]))
    try:
        with reports.handle_reports(handler):
            files = [parser.parse(os.path.join(WORK, "main%d.mac" % i), s) for i, s in enumerate(sources)]
            base, code = Compiler(output_charset="bk").compile_and_link_files(files)
        return base, bytes(code), msgs
    except reports.UnrecoverableError:
        return None, None, msgs


def describe(result):
    base, code, msgs = result
    if base is None:
        return "REFUSED with " + "; ".join("%s[%s]: %s" % m for m in msgs)
    return "base=%s code=%s%s" % (oct(base), code.hex(), (" msgs=%r" % msgs) if msgs else "")


NOP = b"\xa0\x00"
bad = 0

# (a) reserve 4 bytes with the classical '. = . + 4' in a program that has no '.link'
#     expected: load address 0o1000 (default), nop, 4 zero bytes, nop
src = "nop\n. = .+4\nnop\n"
want = (0o1000, NOP + b"\0" * 4 + NOP)
got = assemble(src)
print("(a)", repr(src), "->", describe(got))
if got[:2] != want:
    print("    expected base=0o1000 code=%s" % want[1].hex()); bad += 1

# (b) skip to an absolute address: the first nop is loaded at 1000, the second at 1010
src = "nop\n. = 1010\nnop\n"
want = (0o1000, NOP + b"\0" * 6 + NOP)
got = assemble(src)
print("(b)", repr(src), "->", describe(got))
if got[0] is not None and got[:2] != want:   # a refusal would at least not be a silently relocated program
    print("    expected base=0o1000 code=%s (no '.link', no leading '. =': default load address, gap zero-filled)" % want[1].hex()); bad += 1

# (c) the same skip with the '.link' at the end of the file ('.link' may stand anywhere)
src = "nop\n. = 1010\nnop\n.link 1000\n"
got = assemble(src)
print("(c)", repr(src), "->", describe(got))
if got[:2] != want:
    print("    expected base=0o1000 code=%s; the only '.link' of the program is reported as a conflict" % want[1].hex()); bad += 1

# control: with '.link 1000' on the first line the skip works
ctl = assemble(".link 1000\nnop\n. = .+4\nnop\n")
assert ctl[:2] == (0o1000, NOP + b"\0" * 4 + NOP), ctl

if bad:
    print("DEFECT PRESENT: %d of 3 situations wrong" % bad)
    sys.exit(1)
print("ok")
