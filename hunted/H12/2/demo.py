"""C12 finding 2: inside an included file '. = X' never is a forward skip, even though the base has been set by '.link' on the first line of the main file."""
import os, sys
ROOT = "/tmp/wt/H12"
sys.path.insert(0, ROOT)
import pdpy11
assert pdpy11.__file__.startswith(ROOT + "/"), pdpy11.__file__
from pdpy11 import parser, reports, bk_encoding  # noqa: F401
from pdpy11.compiler import Compiler

WORK = os.path.join(ROOT, "_out", "_work")
os.makedirs(WORK, exist_ok=True)


def write(name, text):
    """create a file next to the main sources (for '.include')"""
    with open(os.path.join(WORK, name), "w") as f:
        f.write(text)


def assemble(*sources):
    """-> (base, code, messages); base is None when the program is refused.
    Any exception other than reports.UnrecoverableError escapes (= internal error)."""
    msgs = []

    def handler(priority, identifier, *spans):
        msgs.append((priority.raw_text, identifier, spans[0][2].split("\n")[0]))
    try:
        with reports.handle_reports(handler):
            files = [parser.parse(os.path.join(WORK, "main%d.mac" % i), s) for i, s in enumerate(sources)]
            base, code = Compiler(output_charset="bk").compile_and_link_files(files)
        return base, bytes(code), msgs
    except reports.UnrecoverableError:
        return None, None, msgs


def describe(result):
    base, code, msgs = result
    if base is None:
        return "REFUSED with " + "; ".join("%s[%s]: %s" % m for m in msgs)
    return "base=%s code=%s%s" % (oct(base), code.hex(), (" msgs=%r" % msgs) if msgs else "")


NOP = b"\xa0\x00"
bad = 0

# The main file sets the base on its first line; the included file reserves space with '. ='.
# Layout expected: 1000 nop (main) | 1002 nop (inc) | 1004..1007 zero | 1010 X: .word X | 1012 .word . (main)
import struct
write("inc_rel.mac", "nop\n. = .+4\nX: .word X\n")
write("inc_abs.mac", "nop\n. = 1010\nX: .word X\n")
write("inc_blkb.mac", "nop\n.blkb 4\nX: .word X\n")
want = (0o1000, NOP + NOP + b"\0" * 4 + struct.pack("<HH", 0o1010, 0o1012))

ctl = assemble(".link 1000\nnop\n.include 'inc_blkb.mac'\n.word .\n")
assert ctl[:2] == want, ctl    # control: the same file with '.blkb 4' instead of '. = .+4'

src = ".link 1000\nnop\n.include 'inc_rel.mac'\n.word .\n"
got = assemble(src)
print("(a) included: 'nop / . = .+4 / X: .word X' ->", describe(got))
if got[:2] != want:
    print("    expected base=0o1000 code=%s" % want[1].hex()); bad += 1

src = ".link 1000\nnop\n.include 'inc_abs.mac'\n.word .\n"
got = assemble(src)
print("(b) included: 'nop / . = 1010 / X: .word X' ->", describe(got))
if got[0] is not None and got[:2] != want:
    print("    expected base=0o1000 code=%s: here X is said to be %s but its word is loaded at 0o1004, and no gap is filled"
          % (want[1].hex(), oct(struct.unpack("<H", got[1][4:6])[0]))); bad += 1

if bad:
    print("DEFECT PRESENT")
    sys.exit(1)
print("ok")
