"""C12 finding 7: '. = X' accepts a backward move when the target lies below address 0: the target is wrapped to 16 bits before it is compared, and ~64 KiB of zeroes are emitted."""
import os, sys
ROOT = "/tmp/wt/H12"
sys.path.insert(0, ROOT)
import pdpy11
assert pdpy11.__file__.startswith(ROOT + "/"), pdpy11.__file__
from pdpy11 import parser, reports, bk_encoding  # noqa: F401
from pdpy11.compiler import Compiler

WORK = os.path.join(ROOT, "_out", "_work")
os.makedirs(WORK, exist_ok=True)


def write(name, text):
    """create a file next to the main sources (for '.include')"""
    with open(os.path.join(WORK, name), "w") as f:
        f.write(text)


def assemble(*sources):
    """-> (base, code, messages); base is None when the program is refused.
    Any exception other than reports.UnrecoverableError escapes (= internal error)."""
    msgs = []

    def handler(priority, identifier, *spans):
        msgs.append((priority.raw_text, identifier, spans[0][2].split("\n")[0]))
    try:
        with reports.handle_reports(handler):
            files = [parser.parse(os.path.join(WORK, "main%d.mac" % i), s) for i, s in enumerate(sources)]
            base, code = Compiler(output_charset="bk").compile_and_link_files(files)
        return base, bytes(code), msgs
    except reports.UnrecoverableError:
        return None, None, msgs


def describe(result):
    base, code, msgs = result
    if base is None:
        return "REFUSED with " + "; ".join("%s[%s]: %s" % m for m in msgs)
    return "base=%s code=%s%s" % (oct(base), code.hex(), (" msgs=%r" % msgs) if msgs else "")


NOP = b"\xa0\x00"
bad = 0

# Backward moves whose target falls below address 0 must be refused like every other backward move.
def short(r):
    base, code, msgs = r
    if base is None:
        return "REFUSED with " + "; ".join("%s[%s]: %s" % m for m in msgs)
    return "ACCEPTED base=%s, %d bytes of code (%s ... %s)" % (oct(base), len(code), code[:4].hex(), code[-4:].hex())

ctl = assemble(".link 0\nnop\n. = .-2\nnop\n")       # control: back by 2 from address 2 (target 0) is refused
assert ctl[0] is None and [m[1] for m in ctl[2]] == ["value-out-of-bounds"], ctl

for back in (3, 4, 5, 6, 10, 64):
    src = ".link 0\nnop\n. = .-%d.\nnop\n" % back    # location counter is 2; target 2 - back < 0
    got = assemble(src)
    print(repr(src), "->", short(got))
    if got[0] is not None:
        bad += 1
src = ".link 10\n.word 1\n. = 6 - 10\n.word 2\n"      # absolute target -2, below the current 0o12
got = assemble(src)
print(repr(src), "->", short(got))
if got[0] is not None:
    bad += 1

if bad:
    print("DEFECT PRESENT: %d backward moves accepted; expected each to be refused (value-out-of-bounds, 'The new link address is lower than the previous one')" % bad)
    sys.exit(1)
print("ok")
