"""C12 finding 5: a main '.link' that uses the difference between a label of an included file with its own '.link <main label>' and a main label is refused as self-dependent although the base cancels."""
import os, sys
ROOT = "/tmp/wt/H12"
sys.path.insert(0, ROOT)
import pdpy11
assert pdpy11.__file__.startswith(ROOT + "/"), pdpy11.__file__
from pdpy11 import parser, reports, bk_encoding  # noqa: F401
from pdpy11.compiler import Compiler

WORK = os.path.join(ROOT, "_out", "_work")
os.makedirs(WORK, exist_ok=True)


def write(name, text):
    """create a file next to the main sources (for '.include')"""
    with open(os.path.join(WORK, name), "w") as f:
        f.write(text)


def assemble(*sources):
    """-> (base, code, messages); base is None when the program is refused.
    Any exception other than reports.UnrecoverableError escapes (= internal error)."""
    msgs = []

    def handler(priority, identifier, *spans):
        msgs.append((priority.raw_text, identifier, spans[0][2].split("\n")[0]))
    try:
        with reports.handle_reports(handler):
            files = [parser.parse(os.path.join(WORK, "main%d.mac" % i), s) for i, s in enumerate(sources)]
            base, code = Compiler(output_charset="bk").compile_and_link_files(files)
        return base, bytes(code), msgs
    except reports.UnrecoverableError:
        return None, None, msgs


def describe(result):
    base, code, msgs = result
    if base is None:
        return "REFUSED with " + "; ".join("%s[%s]: %s" % m for m in msgs)
    return "base=%s code=%s%s" % (oct(base), code.hex(), (" msgs=%r" % msgs) if msgs else "")


NOP = b"\xa0\x00"
bad = 0

# The included file asks to be numbered from the main label M ('.link M'), so IS = M and IE = M + 4.
# The main base 1000 + IE - M = 1004 whatever M is: the dependence on the base cancels.
# Layout: 1004 M: nop | 1006 (= numbered 1004, 1006) .word IS, IE | 1012 Q: .word .
import struct
write("inc_linkm.mac", ".link M\nIS:: .word IS, IE\nIE::\n")
write("inc_plain.mac", "IS:: .word IS, IE\nIE::\n")
want = (0o1004, NOP + struct.pack("<HHH", 0o1004, 0o1010, 0o1012))

# controls: the same with the base spelled out, and the same difference through an include without its own '.link'
ctl = assemble(".link 1004\nM:: nop\n.include 'inc_linkm.mac'\nQ: .word .\n")
assert ctl[:2] == want, ctl
ctl = assemble(".link 1000 + IE - M - 2\nM:: nop\n.include 'inc_plain.mac'\nQ: .word .\n")   # here IE = M + 6
assert ctl[0] == 0o1004, ctl

for src in (".link 1000 + IE - M\nM:: nop\n.include 'inc_linkm.mac'\nQ: .word .\n",
            "M:: nop\n.include 'inc_linkm.mac'\nQ: .word .\n.link 1000 + IE - M\n"):
    got = assemble(src)
    print(repr(src), "->", describe(got))
    if got[:2] != want:
        print("    expected base=0o1004 code=%s" % want[1].hex()); bad += 1

if bad:
    print("DEFECT PRESENT")
    sys.exit(1)
print("ok")
