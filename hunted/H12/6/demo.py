"""C12 finding 6: whether a leading '. = X' inside '.repeat' sets the load address depends on the moment the block happens to be evaluated."""
import os, sys
ROOT = "/tmp/wt/H12"
sys.path.insert(0, ROOT)
import pdpy11
assert pdpy11.__file__.startswith(ROOT + "/"), pdpy11.__file__
from pdpy11 import parser, reports, bk_encoding  # noqa: F401
from pdpy11.compiler import Compiler

WORK = os.path.join(ROOT, "_out", "_work")
os.makedirs(WORK, exist_ok=True)


def write(name, text):
    """create a file next to the main sources (for '.include')"""
    with open(os.path.join(WORK, name), "w") as f:
        f.write(text)


def assemble(*sources):
    """-> (base, code, messages); base is None when the program is refused.
    Any exception other than reports.UnrecoverableError escapes (= internal error)."""
    msgs = []

    def handler(priority, identifier, *spans):
        msgs.append((priority.raw_text, identifier, spans[0][2].split("\n")[0]))
    try:
        with reports.handle_reports(handler):
            files = [parser.parse(os.path.join(WORK, "main%d.mac" % i), s) for i, s in enumerate(sources)]
            base, code = Compiler(output_charset="bk").compile_and_link_files(files)
        return base, bytes(code), msgs
    except reports.UnrecoverableError:
        return None, None, msgs


def describe(result):
    base, code, msgs = result
    if base is None:
        return "REFUSED with " + "; ".join("%s[%s]: %s" % m for m in msgs)
    return "base=%s code=%s%s" % (oct(base), code.hex(), (" msgs=%r" % msgs) if msgs else "")


NOP = b"\xa0\x00"
bad = 0

# The only base-setting statement of the program is a leading '. = 2000' (no code in front of it), wrapped in
# a '.repeat N { }' that runs once. Whether it sets the load address depends on WHERE N = 1 is written.
import struct
same_file = assemble(".repeat N { . = 2000 }\n.word .\nN = 1\n")
other_file = assemble(".repeat N { . = 2000 }\n.word .\n", "N == 1\n")
print("N = 1 in the same file  ->", describe(same_file))
d = describe(other_file)
print("N == 1 in a second file ->", d if len(d) < 120 else d[:60] + " ... " + d[-40:], "(%d bytes)" % len(other_file[1] or b""))
want = (0o2000, struct.pack("<H", 0o2000))
for name, got in (("same file", same_file), ("second file", other_file)):
    if got[0] is not None and got[:2] != want:      # an error report would be acceptable, a different image is not
        print("    %s: expected base=0o2000 code=%s (or an error)" % (name, want[1].hex())); bad += 1
if bad:
    print("DEFECT PRESENT")
    sys.exit(1)
print("ok")
