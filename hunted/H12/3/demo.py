"""C12 finding 3: '.link K + end - start' is refused as self-dependent when a '. =' skip of base-independent size lies between the two labels."""
import os, sys
ROOT = "/tmp/wt/H12"
sys.path.insert(0, ROOT)
import pdpy11
assert pdpy11.__file__.startswith(ROOT + "/"), pdpy11.__file__
from pdpy11 import parser, reports, bk_encoding  # noqa: F401
from pdpy11.compiler import Compiler

WORK = os.path.join(ROOT, "_out", "_work")
os.makedirs(WORK, exist_ok=True)


def write(name, text):
    """create a file next to the main sources (for '.include')"""
    with open(os.path.join(WORK, name), "w") as f:
        f.write(text)


def assemble(*sources):
    """-> (base, code, messages); base is None when the program is refused.
    Any exception other than reports.UnrecoverableError escapes (= internal error)."""
    msgs = []

    def handler(priority, identifier, *spans):
        msgs.append((priority.raw_text, identifier, spans[0][2].split("\n")[0]))
    try:
        with reports.handle_reports(handler):
            files = [parser.parse(os.path.join(WORK, "main%d.mac" % i), s) for i, s in enumerate(sources)]
            base, code = Compiler(output_charset="bk").compile_and_link_files(files)
        return base, bytes(code), msgs
    except reports.UnrecoverableError:
        return None, None, msgs


def describe(result):
    base, code, msgs = result
    if base is None:
        return "REFUSED with " + "; ".join("%s[%s]: %s" % m for m in msgs)
    return "base=%s code=%s%s" % (oct(base), code.hex(), (" msgs=%r" % msgs) if msgs else "")


NOP = b"\xa0\x00"
bad = 0

# '.link K + end - start' where a '. = .+4' (a 4 byte reservation, independent of the base) lies between the labels.
# end - start = 2 (nop) + 4 = 6, so the base is 1006 and E = 1014.
import struct
src = ".link 1000 + E - S\nS: nop\n. = .+4\nE: .word E\n"
want = (0o1006, NOP + b"\0" * 4 + struct.pack("<H", 0o1014))

ctl = assemble(".link 1000 + E - S\nS: nop\n.blkb 4\nE: .word E\n")
assert ctl[:2] == want, ctl            # control: '.blkb 4' in place of '. = .+4'
ctl = assemble(".link 1006\nS: nop\n. = .+4\nE: .word E\n")
assert ctl[:2] == want, ctl            # control: the same layout with the base spelled out

got = assemble(src)
print(repr(src), "->", describe(got))
if got[:2] != want:
    print("    expected base=0o1006 code=%s" % want[1].hex()); bad += 1

src2 = ".link 1000 + E - S\nS: nop\n. = S+6\nE: .word E\n"   # target relative to a label: the same skip
got = assemble(src2)
print(repr(src2), "->", describe(got))
if got[:2] != want:
    print("    expected base=0o1006 code=%s" % want[1].hex()); bad += 1

if bad:
    print("DEFECT PRESENT")
    sys.exit(1)
print("ok")
