"""C12 finding 4: '.link K0 + K*end - K*start' is refused as self-dependent when the factor K is a symbol that is defined by a forward reference."""
import os, sys
ROOT = "/tmp/wt/H12"
sys.path.insert(0, ROOT)
import pdpy11
assert pdpy11.__file__.startswith(ROOT + "/"), pdpy11.__file__
from pdpy11 import parser, reports, bk_encoding  # noqa: F401
from pdpy11.compiler import Compiler

WORK = os.path.join(ROOT, "_out", "_work")
os.makedirs(WORK, exist_ok=True)


def write(name, text):
    """create a file next to the main sources (for '.include')"""
    with open(os.path.join(WORK, name), "w") as f:
        f.write(text)


def assemble(*sources):
    """-> (base, code, messages); base is None when the program is refused.
    Any exception other than reports.UnrecoverableError escapes (= internal error)."""
    msgs = []

    def handler(priority, identifier, *spans):
        msgs.append((priority.raw_text, identifier, spans[0][2].split("\n")[0]))
    try:
        with reports.handle_reports(handler):
            files = [parser.parse(os.path.join(WORK, "main%d.mac" % i), s) for i, s in enumerate(sources)]
            base, code = Compiler(output_charset="bk").compile_and_link_files(files)
        return base, bytes(code), msgs
    except reports.UnrecoverableError:
        return None, None, msgs


def describe(result):
    base, code, msgs = result
    if base is None:
        return "REFUSED with " + "; ".join("%s[%s]: %s" % m for m in msgs)
    return "base=%s code=%s%s" % (oct(base), code.hex(), (" msgs=%r" % msgs) if msgs else "")


NOP = b"\xa0\x00"
bad = 0

# K*E - K*S = K*(E-S): the dependence on the base cancels for every K. K = 2 is defined below the '.link'
# through another symbol (K = N, N = 2), so it is still an unevaluated value when the base is computed.
import struct
body = "S: .word 1\nE: .word E\n"
want = (0o1004, struct.pack("<HH", 1, 0o1006))

for ctl in (".link 1000 + 2*E - 2*S\n" + body,                       # literal factor
            ".link 1000 + K*(E - S)\n" + body + "K = N\nN = 2\n",     # same symbols, difference taken first
            "N = 2\nK = N\n.link 1000 + K*E - K*S\n" + body):        # same expression, K known beforehand
    r = assemble(ctl)
    assert r[:2] == want, (ctl, r)

for src in (".link 1000 + K*E - K*S\n" + body + "K = N\nN = 2\n",
            ".link 1000 + E*K - S*K\n" + body + "K = N\nN = 2\n",
            "K = N\n.link 1000 + K*E - K*S\n" + body + "N = 2\n",
            "K = B - A\n.link 1000 + K*E - K*S\n" + body + "A = 10\nB = 12\n"):      # factor = a difference defined further down
    got = assemble(src)
    print(repr(src), "->", describe(got))
    if got[:2] != want:
        print("    expected base=0o1004 code=%s" % want[1].hex()); bad += 1

if bad:
    print("DEFECT PRESENT")
    sys.exit(1)
print("ok")
