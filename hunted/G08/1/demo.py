"""bare report format + a lone surrogate in a diagnostic text -> 'unexpected internal compiler error'"""
import os, subprocess, sys, tempfile
ROOT = "/tmp/wt/G08"
sys.path.insert(0, ROOT)
import pdpy11
assert pdpy11.__file__.startswith(ROOT + "/"), pdpy11.__file__
bad = 0
with tempfile.TemporaryDirectory(dir=ROOT + "/_out/1") as d:
    for name, src in (("insert", "insert_file <0xD800>\n"), ("include", ".include <0xD800>\n"), ("wav", "make_wav \"x.wav\", <0xD800>\nnop\n")):
        path = os.path.join(d, name + ".mac")
        with open(path, "w") as f:
            f.write(src)
        p = subprocess.run([sys.executable, "-m", "pdpy11", path, "--report-format", "bare", "-o", os.path.join(d, name + ".raw")],
                           cwd=ROOT, capture_output=True, env={**os.environ, "PYTHONPATH": ROOT})
        err = p.stderr.decode("utf-8", "replace"); out = p.stdout.decode("utf-8", "replace")
        internal = "unexpected internal compiler error" in err
        has_diag = ": Error: " in out or ": Error: " in err
        print(f"{src!r}: exit={p.returncode} internal_error={internal} diagnostic_printed={has_diag}")
        if internal:
            print("   last traceback line:", err.strip().splitlines()[-1])
        # Expected: the file cannot be read/encoded -> an ordinary 'Error:' diagnostic and exit status 1
        if internal or not has_diag:
            bad += 1
if bad:
    print(f"DEFECT: {bad} input(s) end in the internal-error path instead of a reported error")
    sys.exit(1)
print("ok")
