"""legal program: '.link K + e - s' with n skips '. = . + 2' between s and e -> time doubles with every skip"""
import signal, sys, time
ROOT = "/tmp/wt/G08"
sys.path.insert(0, ROOT)
import pdpy11
assert pdpy11.__file__.startswith(ROOT + "/"), pdpy11.__file__
from pdpy11 import parser, reports
from pdpy11.compiler import Compiler

class Timeout(BaseException): pass
def on_alarm(*_): raise Timeout()
signal.signal(signal.SIGALRM, on_alarm)

def assemble(src, limit):
    msgs = []
    def handler(priority, identifier, *spans): msgs.append((priority.raw_text, identifier))
    t0 = time.time()
    signal.alarm(limit)
    try:
        with reports.handle_reports(handler):
            files = [parser.parse(ROOT + "/_out/3/f0.mac", src)]
            base, code = Compiler().compile_and_link_files(files)
        return "ok", base, bytes(code), time.time() - t0
    except reports.UnrecoverableError:
        return "error", None, msgs, time.time() - t0
    except Timeout:
        return "timeout", None, None, time.time() - t0
    finally:
        signal.alarm(0)

def program(n):
    return ".link 1000 + e - s\ns:\n" + "nop\n. = . + 2\n" * n + "e:\n"
def expected(n):
    # e - s = 4n bytes: n times (NOP = 000240, two skipped bytes)
    return 0o1000 + 4 * n, (b"\xa0\x00" + b"\x00\x00") * n

times = {}
for n in (8, 12, 14, 16, 18):
    st, base, code, t = assemble(program(n), 6)
    times[n] = t
    print(f"n={n:2d} ({2 * n + 3} statements): {st:8s} {t:6.2f} s", "(result as expected)" if st == "ok" and (base, code) == expected(n) else "")
    if st == "ok" and (base, code) != expected(n):
        print("unexpected result", base, code); sys.exit(1)
    if st == "error":
        print("legal program refused:", code); sys.exit(1)
    if st == "timeout":
        print(f"DEFECT: a legal {2 * n + 3}-statement program did not finish within 6 s; each further 'nop / . = . + 2' pair doubles the time"
              f" (n=30, 63 statements, would take hours)")
        sys.exit(1)
print("ok: all sizes finish quickly")
