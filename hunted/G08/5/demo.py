"""programs whose layout really depends on itself: the cycle should be reported ('recursive-definition'),
   but finding it takes exponential time, or ends in RecursionError"""
import signal, sys, time, traceback
ROOT = "/tmp/wt/G08"
sys.path.insert(0, ROOT)
import pdpy11
assert pdpy11.__file__.startswith(ROOT + "/"), pdpy11.__file__
from pdpy11 import parser, reports
from pdpy11.compiler import Compiler

class Timeout(BaseException): pass
def on_alarm(*_): raise Timeout()
signal.signal(signal.SIGALRM, on_alarm)

def assemble(src, limit):
    msgs = []
    def handler(priority, identifier, *spans): msgs.append((priority.raw_text, identifier))
    t0 = time.time()
    signal.alarm(limit)
    try:
        with reports.handle_reports(handler):
            files = [parser.parse(ROOT + "/_out/5/f0.mac", src)]
            base, code = Compiler().compile_and_link_files(files)
        return "ok", msgs, time.time() - t0
    except reports.UnrecoverableError:
        return "error", msgs, time.time() - t0
    except Timeout:
        return "timeout", msgs, time.time() - t0
    except Exception:
        return "internal: " + traceback.format_exc().strip().splitlines()[-1], msgs, time.time() - t0
    finally:
        signal.alarm(0)

bad = 0
cases = [
    # (a) block sizes that depend on a label behind them, 256 times (octal 400): 5 lines of source
    ("a", ".repeat 400 {\nnop\n.blkw e-.\n}\ne:\n"),
    # (b) the same 64 times
    ("b", ".repeat 100 {\nnop\n.blkw e-.\n}\ne:\n"),
    # (c) a non-leading '. = . + 2' without a base sets the base to itself + 2 (documented quirk), after 13 '.even'
    ("c", ".even\n" * 13 + ". = . + 2\n"),
    # (d) the base is a label of the program, behind 12 '.even / .byte' pairs
    ("d", ".even\n.byte 1\n" * 12 + "x: .link x\n"),
    # (e) small instances of (a), (c), (d): these are reported properly
    ("e1", ".repeat 4 {\nnop\n.blkw e-.\n}\ne:\n"), ("e2", ".even\n" * 4 + ". = . + 2\n"), ("e3", ".even\n.byte 1\n" * 4 + "x: .link x\n"),
]
for name, src in cases:
    st, msgs, t = assemble(src, 8)
    good = st == "error" and ("Error", "recursive-definition") in msgs
    print(f"({name}) {src[:45]!r}... {len(src.splitlines())} lines -> {st} {msgs[:2]} {t:.2f} s", "" if good else "  <-- DEFECT")
    if not good:
        bad += 1
if bad:
    print(f"DEFECT: {bad} self-referential layouts end in an internal exception or do not finish in 8 s instead of 'recursive-definition'")
    sys.exit(1)
print("ok")
