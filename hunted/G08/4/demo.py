"""legal program: n statements whose size depends on their own address ('.blkb 2-<.&1>'), no '.link' at all
   -> time doubles with every statement (with '.link 1000' in front the same program takes milliseconds)"""
import signal, sys, time
ROOT = "/tmp/wt/G08"
sys.path.insert(0, ROOT)
import pdpy11
assert pdpy11.__file__.startswith(ROOT + "/"), pdpy11.__file__
from pdpy11 import parser, reports
from pdpy11.compiler import Compiler

class Timeout(BaseException): pass
def on_alarm(*_): raise Timeout()
signal.signal(signal.SIGALRM, on_alarm)

def assemble(src, limit):
    msgs = []
    def handler(priority, identifier, *spans): msgs.append((priority.raw_text, identifier))
    t0 = time.time()
    signal.alarm(limit)
    try:
        with reports.handle_reports(handler):
            files = [parser.parse(ROOT + "/_out/4/f0.mac", src)]
            base, code = Compiler().compile_and_link_files(files)
        return "ok", base, bytes(code), time.time() - t0
    except reports.UnrecoverableError:
        return "error", None, msgs, time.time() - t0
    except Timeout:
        return "timeout", None, None, time.time() - t0
    finally:
        signal.alarm(0)

# every '.blkb 2-<.&1>' stands at an even address (the default base 1000 is even), so it reserves 2 bytes
for prefix in (".link 1000\n", ""):
    for n in (8, 12, 14, 16, 18):
        st, base, code, t = assemble(prefix + ".blkb 2-<.&1>\n" * n, 8)
        print(f"{'with' if prefix else 'without'} '.link 1000', n={n:2d}: {st:8s} {t:6.2f} s")
        if st == "ok" and (base, code) != (0o1000, b"\0" * (2 * n)):
            print("unexpected result", base, code); sys.exit(1)
        if st == "error":
            print("legal program refused:", code); sys.exit(1)
        if st == "timeout":
            print(f"DEFECT: a legal {n}-statement program did not finish within 8 s; every further statement doubles the time")
            sys.exit(1)
print("ok")
