"""'. = . + huge' between the labels of '.link K + e - s' -> OverflowError (no range check on that path)"""
import sys, traceback
ROOT = "/tmp/wt/G08"
sys.path.insert(0, ROOT)
import pdpy11
assert pdpy11.__file__.startswith(ROOT + "/"), pdpy11.__file__
from pdpy11 import parser, reports
from pdpy11.compiler import Compiler

def assemble(src):
    msgs = []
    def handler(priority, identifier, *spans): msgs.append((priority.raw_text, identifier))
    try:
        with reports.handle_reports(handler):
            files = [parser.parse(ROOT + "/_out/2/f0.mac", src)]
            base, code = Compiler().compile_and_link_files(files)
        return "ok", base, bytes(code), msgs
    except reports.UnrecoverableError:
        return "error", None, None, msgs
    except Exception:
        return "internal", None, traceback.format_exc(), msgs

# control: the supported idiom with a small skip works: base = 0o1000 + 8, eight zero bytes
st, base, code, msgs = assemble(".link 1000 + e - s\ns: . = . + 10\ne:\n")
print("control:", st, base, code)
assert (st, base, code) == ("ok", 0o1000 + 8, b"\0" * 8)

# the same with a skip of 2**70 bytes: cannot fit the 16-bit address space -> an error is expected
# (the ordinary path says 'value-out-of-bounds': compare '.link 1000' + '. = . + <1<<106>')
src = ".link 1000 + e - s\ns: . = . + <1<<106>\ne:\n"
st, base, code, msgs = assemble(src)
print(repr(src), "->", st, msgs)
if st == "internal":
    print(code.strip().splitlines()[-1])
    print("DEFECT: internal exception instead of a reported error")
    sys.exit(1)
if st == "error" and any(m[0] == "Error" for m in msgs):
    print("ok"); sys.exit(0)
print("DEFECT: neither a proper error nor a plausible success"); sys.exit(1)
