"""one flat expression with 1000 terms (nesting depth 0, 2 KB of source) -> RecursionError"""
import sys, traceback
ROOT = "/tmp/wt/G08"
sys.path.insert(0, ROOT)
import pdpy11
assert pdpy11.__file__.startswith(ROOT + "/"), pdpy11.__file__
from pdpy11 import parser, reports
from pdpy11.compiler import Compiler

def assemble(src):
    msgs = []
    def handler(priority, identifier, *spans): msgs.append((priority.raw_text, identifier))
    try:
        with reports.handle_reports(handler):
            files = [parser.parse(ROOT + "/_out/6/f0.mac", src)]
            base, code = Compiler().compile_and_link_files(files)
        return "ok", bytes(code), msgs
    except reports.UnrecoverableError:
        return "error", None, msgs
    except Exception:
        return "internal", traceback.format_exc().strip().splitlines()[-1], msgs

bad = 0
for n in (100, 500, 1000, 3000):
    for name, src, want in (("sum", ".word " + "+".join(["1"] * n) + "\n", n % 65536), ("neg", ".word " + "-" * n + "1\n", (-1) ** n % 65536)):
        st, code, msgs = assemble(src)
        ok = st == "ok" and code == want.to_bytes(2, "little")
        print(f"{name} with {n} terms: {st} {code if st != 'ok' else code.hex()}", "" if ok else "  <-- DEFECT")
        bad += not ok
if bad:
    print("DEFECT: a legal one-line program dies with an internal exception"); sys.exit(1)
print("ok")
