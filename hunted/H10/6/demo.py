"""C10 finding 6: the radix spelling of a branch target matters: 0x4 / 0o4 / 0b100 are taken as (undefined) local labels, ^X4 / ^O4 / ^B100 / 4. as the number 4."""
import sys
sys.path.insert(0, "/tmp/wt/H10")
import pdpy11
assert pdpy11.__file__.startswith("/tmp/wt/H10/"), pdpy11.__file__
from pdpy11 import parser, reports, bk_encoding
from pdpy11.compiler import Compiler


def assemble(*sources, charset="bk"):
    msgs = []
    def handler(priority, identifier, *spans):
        msgs.append((priority.raw_text, identifier))
    try:
        with reports.handle_reports(handler):
            files = [parser.parse("/tmp/wt/H10/_scratch/f%d.mac" % i, s) for i, s in enumerate(sources)]
            base, code = Compiler(output_charset=charset).compile_and_link_files(files)
        return base, bytes(code), msgs
    except reports.UnrecoverableError:
        return None, None, msgs


def describe(result):
    base, code, msgs = result
    errors = [m for m in msgs if m[0] != "Warning"]
    if code is None:
        return "REFUSED %r" % (errors,)
    return "base=%o bytes=%s" % (base, code.hex())

PRE = ".link 0\n nop\n"          # the branch sits at address 2
# first principles: br 4 at address 2 -> offset (4 - 4) / 2 = 0 -> 000400
expected = bytes.fromhex("a000") + (0o000400).to_bytes(2, "little") + bytes.fromhex("a000")
spellings = ["4.", "^D4", "^O4", "^X4", "^B100", "^d4", "^x4", "0x4", "0X4", "0o4", "0b100", "-0x4+0x8"]
bad = False
for sp in spellings:
    r = assemble(PRE + " br " + sp + "\n nop\n")
    ok = r[1] == expected
    print("br %-9s -> %-45s expected %s %s" % (sp, describe(r), expected.hex(), "" if ok else "  <-- WRONG"))
    bad |= not ok
# the very same spellings are plain numbers everywhere else
r = assemble(".word 0x4, 0o4, 0b100\n mov #0x4, 0x4(r1)\n")
print(".word 0x4, 0o4, 0b100 / mov #0x4, 0x4(r1) ->", describe(r))
assert r[1] == bytes.fromhex("040004000400" "f115" "0400" "0400")
s1 = assemble(PRE + " sob r0, 0.\n"); s2 = assemble(PRE + " sob r0, 0x0\n")
print("sob r0, 0.  ->", describe(s1)); print("sob r0, 0x0 ->", describe(s2))
bad |= s1[:2] != s2[:2]
if bad:
    print("DEFECT: the radix in which a branch target is written changes the result")
    sys.exit(1)
print("ok")
