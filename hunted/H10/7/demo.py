"""C10 finding 7: an implicit word list whose first item is "name+expr" or "name-expr" is refused although a comma follows; explicit .word is fine."""
import sys
sys.path.insert(0, "/tmp/wt/H10")
import pdpy11
assert pdpy11.__file__.startswith("/tmp/wt/H10/"), pdpy11.__file__
from pdpy11 import parser, reports, bk_encoding
from pdpy11.compiler import Compiler


def assemble(*sources, charset="bk"):
    msgs = []
    def handler(priority, identifier, *spans):
        msgs.append((priority.raw_text, identifier))
    try:
        with reports.handle_reports(handler):
            files = [parser.parse("/tmp/wt/H10/_scratch/f%d.mac" % i, s) for i, s in enumerate(sources)]
            base, code = Compiler(output_charset=charset).compile_and_link_files(files)
        return base, bytes(code), msgs
    except reports.UnrecoverableError:
        return None, None, msgs


def describe(result):
    base, code, msgs = result
    errors = [m for m in msgs if m[0] != "Warning"]
    if code is None:
        return "REFUSED %r" % (errors,)
    return "base=%o bytes=%s" % (base, code.hex())

import struct

def words(*values):
    return b"".join(struct.pack("<H", v & 0xffff) for v in values)

cases = [
    # implicit                         explicit                                expected
    ("k = 2\nk+1, 3\n",                "k = 2\n.word k+1, 3\n",                words(3, 3)),
    ("k = 2\nk-1, 3\n",                "k = 2\n.word k-1, 3\n",                words(1, 3)),
    ("k = 2\nk + 1, 3\n",              "k = 2\n.word k + 1, 3\n",              words(3, 3)),
    ("lab: nop\nlab+2, lab+4\n",       "lab: nop\n.word lab+2, lab+4\n",       words(0o240, 0o1002, 0o1004)),
    ("fwd+2, fwd+4\nfwd: nop\n",       ".word fwd+2, fwd+4\nfwd: nop\n",       words(0o1006, 0o1010, 0o240)),
    # other operators and a grouped first item are accepted
    ("k = 2\nk*1, 3\n",                None,                                   words(2, 3)),
    ("k = 2\n<k>+1, 3\n",              None,                                   words(3, 3)),
    ("k = 2\n1+k, 3\n",                None,                                   words(3, 3)),
]
bad = False
for implicit, explicit, expected in cases:
    ri = assemble(implicit)
    if explicit is not None:
        re_ = assemble(explicit)
        assert re_[1] == expected, (explicit, describe(re_))
    ok = ri[1] == expected
    print("%-30r -> %-70s expected %s %s" % (implicit, describe(ri), expected.hex(), "" if ok else "  <-- WRONG"))
    bad |= not ok
if bad:
    print("DEFECT: 'name+expr, ...' / 'name-expr, ...' is not accepted as an implicit word list")
    sys.exit(1)
print("ok")
