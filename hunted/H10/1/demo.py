"""C10 finding 1: the grouping style (or a comment) inside a branch operand changes the emitted bytes."""
import sys
sys.path.insert(0, "/tmp/wt/H10")
import pdpy11
assert pdpy11.__file__.startswith("/tmp/wt/H10/"), pdpy11.__file__
from pdpy11 import parser, reports, bk_encoding
from pdpy11.compiler import Compiler


def assemble(*sources, charset="bk"):
    msgs = []
    def handler(priority, identifier, *spans):
        msgs.append((priority.raw_text, identifier))
    try:
        with reports.handle_reports(handler):
            files = [parser.parse("/tmp/wt/H10/_scratch/f%d.mac" % i, s) for i, s in enumerate(sources)]
            base, code = Compiler(output_charset=charset).compile_and_link_files(files)
        return base, bytes(code), msgs
    except reports.UnrecoverableError:
        return None, None, msgs


def describe(result):
    base, code, msgs = result
    errors = [m for m in msgs if m[0] != "Warning"]
    if code is None:
        return "REFUSED %r" % (errors,)
    return "base=%o bytes=%s" % (base, code.hex())

PRE = ".link 0\n2: nop\n nop\n nop\n"      # local label '2' at address 0, the branch sits at address 6

# The same operand, only the kind of brackets around the subexpression '4' differs
variants = {
    "<4>":   PRE + " br 2+<4>\n",
    "(4)":   PRE + " br 2+(4)\n",
    "^/4/":  PRE + " br 2+^/4/\n",
    "^:4:":  PRE + " br 2+^:4:\n",
    "^|4|":  PRE + " br 2+^|4|\n",
}
# First principles: 'br X' at address 6 encodes 0o000400 | (((X - 8) // 2) & 0xff).
# With '2' = local label 2 (address 0) the target is 4 -> word 0x01fe; this is what '<4>' gives
# and what the assembler's own 'label-fixup' warning documents for '1 + 2'-like operands.
expected = bytes.fromhex("a000a000a000") + (0o000400 | (((0 + 4 - 8) // 2) & 0xff)).to_bytes(2, "little")

bad = False
results = {k: assemble(v) for k, v in variants.items()}
reference = results["<4>"]
for k, r in results.items():
    ok = r[:2] == reference[:2]          # the property only demands that all spellings agree
    print("br 2+%-6s -> %s %s" % (k, describe(r), "" if ok else "   <-- differs from br 2+<4>"))
    bad |= not ok
print("(label-plus-4 reading would be %s)" % expected.hex())

# Same thing with a comment: the two programs differ ONLY by the text of a comment
a = assemble(PRE + " br 2 ; note\n +4\n")
b = assemble(PRE + " br 2 ; (note)\n +4\n")
c = assemble(PRE + " br 2 ; note: x\n +4\n")
print("comment 'note'    ->", describe(a))
print("comment '(note)'  ->", describe(b))
print("comment 'note: x' ->", describe(c))
if not (a[:2] == b[:2] == c[:2]):
    print("the text of a comment changes the emitted bytes")
    bad = True

# sob is affected the same way
s1 = assemble(PRE + " sob r1, 2+<2>\n"); s2 = assemble(PRE + " sob r1, 2+(2)\n")
print("sob r1, 2+<2> ->", describe(s1)); print("sob r1, 2+(2) ->", describe(s2))
bad |= s1[:2] != s2[:2]

if bad:
    print("DEFECT: ( ) / < > / ^x..x grouping and comments are not interchangeable inside a branch operand")
    sys.exit(1)
print("ok")
