"""C10 finding 2: an implicit word list that starts with a sign, a caret form or "<<" is swallowed by the statement on the line above."""
import sys
sys.path.insert(0, "/tmp/wt/H10")
import pdpy11
assert pdpy11.__file__.startswith("/tmp/wt/H10/"), pdpy11.__file__
from pdpy11 import parser, reports, bk_encoding
from pdpy11.compiler import Compiler


def assemble(*sources, charset="bk"):
    msgs = []
    def handler(priority, identifier, *spans):
        msgs.append((priority.raw_text, identifier))
    try:
        with reports.handle_reports(handler):
            files = [parser.parse("/tmp/wt/H10/_scratch/f%d.mac" % i, s) for i, s in enumerate(sources)]
            base, code = Compiler(output_charset=charset).compile_and_link_files(files)
        return base, bytes(code), msgs
    except reports.UnrecoverableError:
        return None, None, msgs


def describe(result):
    base, code, msgs = result
    errors = [m for m in msgs if m[0] != "Warning"]
    if code is None:
        return "REFUSED %r" % (errors,)
    return "base=%o bytes=%s" % (base, code.hex())

import struct

def words(*values):
    return b"".join(struct.pack("<H", v & 0xffff) for v in values)

# (implicit spelling, explicit spelling, bytes expected from first principles)
cases = [
    (".word 5\n-1\n",              ".word 5\n.word -1\n",              words(5, -1)),
    (".word 5\n+1\n",              ".word 5\n.word +1\n",              words(5, 1)),
    (".word 5\n^C5\n",             ".word 5\n.word ^C5\n",             words(5, ~5)),
    (".word 5\n^X10, 2\n",         ".word 5\n.word ^X10, 2\n",         words(5, 16, 2)),
    (".word 5\n<<1>+1>\n",         ".word 5\n.word <<1>+1>\n",         words(5, 2)),
    ("x = 5\n-1\n.word x\n",       "x = 5\n.word -1\n.word x\n",       words(-1, 5)),
    ("mov r0, r1\n-1, 2\n",        "mov r0, r1\n.word -1, 2\n",        words(0o010001, -1, 2)),
    (".byte 1\n.even\n.blkw 1\n-3., -7.\n", ".byte 1\n.even\n.blkw 1\n.word -3., -7.\n", b"\x01\x00" + words(0, -3, -7)),
    # the same implicit lists are fine when the line above does not end in an expression
    ("nop\n-1\n",                  "nop\n.word -1\n",                  words(0o240, -1)),
]
bad = False
for implicit, explicit, expected in cases:
    ri = assemble(implicit); re_ = assemble(explicit)
    assert re_[1] == expected, (explicit, describe(re_))      # the explicit spelling is right
    ok = ri[1] == expected
    print("%-40r -> %-40s expected %s %s" % (implicit, describe(ri), expected.hex(), "" if ok else "  <-- WRONG" + (" (silently)" if ri[1] is not None else "")))
    bad |= not ok
# Practice corpus: drop '.WORD' in front of lists with at least two items in tests/practice/EIS-test
import re
from pdpy11.formats import file_formats
path = "/tmp/wt/H10/tests/practice/EIS-test/code.mac"
source = open(path).read()
rewritten = re.sub(r"(?mi)^(\s*)\.WORD[ \t]+(?=[^;\n]*,)", r"\1", source)
def build(text):
    msgs = []
    try:
        with reports.handle_reports(lambda p, i, *s: msgs.append((p.raw_text, i))):
            base, code = Compiler().compile_and_link_files([parser.parse(path, text)])
        return file_formats["bin"](base, bytes(code)), msgs
    except reports.UnrecoverableError:
        return None, msgs
reference = open("/tmp/wt/H10/tests/practice/EIS-test/out.bin", "rb").read()
assert build(source)[0] == reference
result, msgs = build(rewritten)
errors = [m for m in msgs if m[0] != "Warning"]
print("EIS-test with implicit word lists: %s, errors %r; reference out.bin has %d bytes" % ("refused" if result is None else "%d bytes" % len(result), errors, len(reference)))
if result != reference:
    print("  <-- WRONG: lines such as '-3., -7. ...' are subtracted from the '.WORD 10' that ends the line above")
    bad = True

if bad:
    print("DEFECT: explicit '.word' and the implicit word list give different results")
    sys.exit(1)
print("ok")
