"""C10 finding 5: after .ascii/.asciz/.rad50 a next line starting with "<", a quote or "/" is swallowed as one more string chunk."""
import sys
sys.path.insert(0, "/tmp/wt/H10")
import pdpy11
assert pdpy11.__file__.startswith("/tmp/wt/H10/"), pdpy11.__file__
from pdpy11 import parser, reports, bk_encoding
from pdpy11.compiler import Compiler


def assemble(*sources, charset="bk"):
    msgs = []
    def handler(priority, identifier, *spans):
        msgs.append((priority.raw_text, identifier))
    try:
        with reports.handle_reports(handler):
            files = [parser.parse("/tmp/wt/H10/_scratch/f%d.mac" % i, s) for i, s in enumerate(sources)]
            base, code = Compiler(output_charset=charset).compile_and_link_files(files)
        return base, bytes(code), msgs
    except reports.UnrecoverableError:
        return None, None, msgs


def describe(result):
    base, code, msgs = result
    errors = [m for m in msgs if m[0] != "Warning"]
    if code is None:
        return "REFUSED %r" % (errors,)
    return "base=%o bytes=%s" % (base, code.hex())

import struct

def words(*values):
    return b"".join(struct.pack("<H", v & 0xffff) for v in values)

R50_ABC = 1 * 1600 + 2 * 40 + 3
cases = [
    # implicit                          explicit                                 expected
    ('.ascii "ab"\n<12>\n',             '.ascii "ab"\n.word <12>\n',             b"ab" + words(0o12)),
    ('.ascii "ab"\n<12>, 5\n',          '.ascii "ab"\n.word <12>, 5\n',          b"ab" + words(0o12, 5)),
    ('.asciz "abc"\n<1+2>*2\n',         '.asciz "abc"\n.word <1+2>*2\n',         b"abc\0" + words(6)),
    ('.rad50 /abc/\n<12>\n',            '.rad50 /abc/\n.word <12>\n',            words(R50_ABC, 0o12)),
    (".ascii \"ab\"\n'x, 'y\n",         ".ascii \"ab\"\n.word 'x, 'y\n",         b"ab" + words(ord("x"), ord("y"))),
    ('.ascii "ab"\n"xy\n',              '.ascii "ab"\n.word "xy\n',              b"ab" + b"xy"),
    # fine when something else stands in between
    ('.ascii "ab"\nq:\n<12>\n',         None,                                    b"ab" + words(0o12)),
]
bad = False
for implicit, explicit, expected in cases:
    ri = assemble(implicit)
    if explicit is not None:
        re_ = assemble(explicit)
        assert re_[1] == expected, (explicit, describe(re_))
    ok = ri[1] == expected
    print("%-30r -> %-60s expected %s %s" % (implicit, describe(ri), expected.hex(), "" if ok else "  <-- WRONG" + (" (silently)" if ri[1] is not None else "")))
    bad |= not ok
if bad:
    print("DEFECT: the string operand of .ascii/.asciz/.rad50 continues on the next line")
    sys.exit(1)
print("ok")
