"""C10 finding 3: a name that starts with "_" or "$" at the start of a line is read as the infix operator "_" (shift) or "$" (call) of the line above."""
import sys
sys.path.insert(0, "/tmp/wt/H10")
import pdpy11
assert pdpy11.__file__.startswith("/tmp/wt/H10/"), pdpy11.__file__
from pdpy11 import parser, reports, bk_encoding
from pdpy11.compiler import Compiler


def assemble(*sources, charset="bk"):
    msgs = []
    def handler(priority, identifier, *spans):
        msgs.append((priority.raw_text, identifier))
    try:
        with reports.handle_reports(handler):
            files = [parser.parse("/tmp/wt/H10/_scratch/f%d.mac" % i, s) for i, s in enumerate(sources)]
            base, code = Compiler(output_charset=charset).compile_and_link_files(files)
        return base, bytes(code), msgs
    except reports.UnrecoverableError:
        return None, None, msgs


def describe(result):
    base, code, msgs = result
    errors = [m for m in msgs if m[0] != "Warning"]
    if code is None:
        return "REFUSED %r" % (errors,)
    return "base=%o bytes=%s" % (base, code.hex())

import struct

def words(*values):
    return b"".join(struct.pack("<H", v & 0xffff) for v in values)

MOV_R0_R1, NOP, DEC_R0 = 0o010001, 0o240, 0o005300
cases = [
    # implicit word list vs explicit .word, first symbol starts with '_' / '$'
    ("_x = 3\n.word 1\n_x, 2\n",         "_x = 3\n.word 1\n.word _x, 2\n",  words(1, 3, 2)),
    ("$x = 3\n.word 1\n$x, 2\n",         "$x = 3\n.word 1\n.word $x, 2\n",  words(1, 3, 2)),
    # the same names work when spelled without the leading character ...
    ("x = 3\n.word 1\nx, 2\n",           None,                               words(1, 3, 2)),
    # ... and labels / assignments with such names are hit as well
    (".word 1\n_foo: nop\n",             ".word 1\nfoo: nop\n",             words(1, NOP)),
    ("mov r0, r1\n$loop: dec r0\n",      "mov r0, r1\nloop: dec r0\n",      words(MOV_R0_R1, DEC_R0)),
    (".word 1\n_x = 4\n.word _x\n",      ".word 1\nx = 4\n.word x\n",       words(1, 4)),
    # silent variant: 'x' happens to exist, so ".word 4" + "_x: nop" quietly becomes ".word 4 _ x:" (4 shifted left by x) and label '_x' vanishes
    ("x = 1\n.word 4\n_x: nop\n",       "x = 1\n.word 4\nux: nop\n",      words(4, NOP)),
    # harmless after a statement without operands
    ("nop\n_foo: nop\n",                 None,                               words(NOP, NOP)),
]
bad = False
for src, other, expected in cases:
    r = assemble(src)
    if other is not None:
        ro = assemble(other)
        assert ro[1] == expected, (other, describe(ro))
    ok = r[1] == expected
    print("%-36r -> %-45s expected %s %s" % (src, describe(r), expected.hex(), "" if ok else "  <-- WRONG"))
    bad |= not ok
if bad:
    print("DEFECT: a line that starts with a '_...' or '$...' name is glued to the previous statement")
    sys.exit(1)
print("ok")
