"""C10 finding 4: an implicit word list that starts with "(" becomes a "call" A(B) on the last operand of the line above; "<" works."""
import sys
sys.path.insert(0, "/tmp/wt/H10")
import pdpy11
assert pdpy11.__file__.startswith("/tmp/wt/H10/"), pdpy11.__file__
from pdpy11 import parser, reports, bk_encoding
from pdpy11.compiler import Compiler


def assemble(*sources, charset="bk"):
    msgs = []
    def handler(priority, identifier, *spans):
        msgs.append((priority.raw_text, identifier))
    try:
        with reports.handle_reports(handler):
            files = [parser.parse("/tmp/wt/H10/_scratch/f%d.mac" % i, s) for i, s in enumerate(sources)]
            base, code = Compiler(output_charset=charset).compile_and_link_files(files)
        return base, bytes(code), msgs
    except reports.UnrecoverableError:
        return None, None, msgs


def describe(result):
    base, code, msgs = result
    errors = [m for m in msgs if m[0] != "Warning"]
    if code is None:
        return "REFUSED %r" % (errors,)
    return "base=%o bytes=%s" % (base, code.hex())

import struct

def words(*values):
    return b"".join(struct.pack("<H", v & 0xffff) for v in values)

cases = [
    # ( ) spelling                      < > spelling                       explicit .word                          expected
    (".word 5\n(2), 3\n",               ".word 5\n<2>, 3\n",               ".word 5\n.word (2), 3\n",              words(5, 2, 3)),
    ("x = 5\n(x+1)*2\n",                "x = 5\n<x+1>*2\n",                "x = 5\n.word (x+1)*2\n",               words(12)),
    (".blkb 2\n(2)\n",                  ".blkb 2\n<2>\n",                  ".blkb 2\n.word (2)\n",                 b"\0\0" + words(2)),
    ("lab: clr lab\n(2), 3\n",          "lab: clr lab\n<2>, 3\n",          "lab: clr lab\n.word (2), 3\n",         words(0o005067, -4, 2, 3)),
    ("nop\n(2), 3\n",                   "nop\n<2>, 3\n",                   "nop\n.word (2), 3\n",                  words(0o240, 2, 3)),
]
bad = False
for paren, angle, explicit, expected in cases:
    rp, ra, re_ = assemble(paren), assemble(angle), assemble(explicit)
    assert ra[1] == expected and re_[1] == expected, (describe(ra), describe(re_))
    ok = rp[1] == expected
    print("%-28r -> %-45s expected %s %s" % (paren, describe(rp), expected.hex(), "" if ok else "  <-- WRONG ('<' spelling and explicit .word are fine)"))
    bad |= not ok
if bad:
    print("DEFECT: '(expr), ...' on its own line is not an implicit word list after a statement with operands")
    sys.exit(1)
print("ok")
