"""A closing brace that directly follows an operand (or an inner closing brace) is a false 'missing-whitespace' error."""
import sys
sys.path.insert(0, "/tmp/wt/H16")
import pdpy11
assert pdpy11.__file__.startswith("/tmp/wt/H16/"), pdpy11.__file__
from pdpy11 import parser, reports
from pdpy11.compiler import Compiler


def assemble(*sources, names=None):
    msgs = []
    def handler(priority, identifier, *spans):
        msgs.append((priority.raw_text, identifier))
    try:
        with reports.handle_reports(handler):
            files = [parser.parse(names[i] if names else "/tmp/wt/H16/_scratch/f%d.mac" % i, s) for i, s in enumerate(sources)]
            base, code = Compiler().compile_and_link_files(files)
        return base, bytes(code), msgs
    except reports.UnrecoverableError:
        return None, None, msgs


def hx(code):
    return None if code is None else code.hex()

import struct
cases = [
    # (source with the brace glued on, the same with one blank inserted, expected words)
    (".repeat 2 {clr r0}\nhalt\n",              ".repeat 2 {clr r0 }\nhalt\n",              [0o005000, 0o005000, 0]),
    (".repeat 2 { .repeat 2 { nop }}\nhalt\n", ".repeat 2 { .repeat 2 { nop } }\nhalt\n", [0o240] * 4 + [0]),
    (".repeat 2 { .word 1, 2}\nhalt\n",        ".repeat 2 { .word 1, 2 }\nhalt\n",        [1, 2, 1, 2, 0]),
]
# control: a brace glued to an operand-less instruction is accepted
_, c_ctl, m_ctl = assemble(".repeat 2 {nop}\nhalt\n")
print("control '.repeat 2 {nop}':", hx(c_ctl), m_ctl)
bad = c_ctl != struct.pack("<3H", 0o240, 0o240, 0)
for glued, spaced, words in cases:
    expected = struct.pack("<%dH" % len(words), *words)
    _, c_spaced, m_spaced = assemble(spaced)
    _, c_glued, m_glued = assemble(glued)
    print(repr(spaced), "->", hx(c_spaced), m_spaced)
    print(repr(glued), "->", hx(c_glued), m_glued)
    if c_spaced != expected:
        print("  UNEXPECTED: control is wrong")
        bad = True
    if c_glued != expected:
        print("  DEFECT: legal program refused: the '}' that closes the block is reported as "
              "\"Expected whitespace after instruction. Proceeding as if a new instruction is starting\"")
        bad = True
sys.exit(1 if bad else 0)
