"""A '.repeat' body whose closing brace is missing is silently accepted."""
import sys
sys.path.insert(0, "/tmp/wt/H16")
import pdpy11
assert pdpy11.__file__.startswith("/tmp/wt/H16/"), pdpy11.__file__
from pdpy11 import parser, reports
from pdpy11.compiler import Compiler


def assemble(*sources, names=None):
    msgs = []
    def handler(priority, identifier, *spans):
        msgs.append((priority.raw_text, identifier))
    try:
        with reports.handle_reports(handler):
            files = [parser.parse(names[i] if names else "/tmp/wt/H16/_scratch/f%d.mac" % i, s) for i, s in enumerate(sources)]
            base, code = Compiler().compile_and_link_files(files)
        return base, bytes(code), msgs
    except reports.UnrecoverableError:
        return None, None, msgs


def hx(code):
    return None if code is None else code.hex()

src = "a: nop\n.repeat 3 { nop\nhalt\n"      # the '}' is missing
base, code, msgs = assemble(src)
print("source:", repr(src))
print("result:", hx(code), msgs)

# First principles: there is no '.repeat n { body }' statement here - the block is
# never closed - so the program is ill-formed and has to be diagnosed (compare a
# stray '}', which is an 'invalid-insn' error). It must certainly not assemble
# the rest of the file three times without a word.
if code is not None and not msgs:
    print("DEFECT: the unterminated block is accepted without any diagnostic; everything up to "
          "the end of the file became the loop body: 'nop halt' x 3 =", code[2:].hex())
    sys.exit(1)
sys.exit(0)
