"""An exported constant used as a bare implicit word in another linked file is refused."""
import sys
sys.path.insert(0, "/tmp/wt/H16")
import pdpy11
assert pdpy11.__file__.startswith("/tmp/wt/H16/"), pdpy11.__file__
from pdpy11 import parser, reports
from pdpy11.compiler import Compiler


def assemble(*sources, names=None):
    msgs = []
    def handler(priority, identifier, *spans):
        msgs.append((priority.raw_text, identifier))
    try:
        with reports.handle_reports(handler):
            files = [parser.parse(names[i] if names else "/tmp/wt/H16/_scratch/f%d.mac" % i, s) for i, s in enumerate(sources)]
            base, code = Compiler().compile_and_link_files(files)
        return base, bytes(code), msgs
    except reports.UnrecoverableError:
        return None, None, msgs


def hx(code):
    return None if code is None else code.hex()

F1 = "magic == 12345\nmov #magic, r0\n"
F2 = "magic\nhalt\n"          # a statement that consists of a constant name: implicit '.word magic'

import struct
# mov #12345, r0 = 012700 012345 ; .word 12345 ; halt
expected = struct.pack("<4H", 0o012700, 0o12345, 0o12345, 0)

_, code_concat, m_concat = assemble(F1 + F2)
_, code_linked, m_linked = assemble(F1, F2)
# control: the same reference spelled with an explicit directive links fine
_, code_ctl, m_ctl = assemble(F1, ".word magic\nhalt\n")
print("expected               :", expected.hex())
print("concatenation F1+F2    :", hx(code_concat), m_concat)
print("linked F1 F2           :", hx(code_linked), m_linked)
print("linked, '.word magic'  :", hx(code_ctl), m_ctl)

bad = False
if code_concat != expected or code_ctl != expected:
    print("UNEXPECTED: control programs are wrong")
    bad = True
if code_linked != expected:
    print("DEFECT: linking F1 F2 does not yield what their concatenation yields: the exported "
          "constant 'magic' (defined above, in F1) is not recognised as an implicit '.word' in F2")
    bad = True
sys.exit(1 if bad else 0)
