"""An '.include' whose file name is not known at once is laid out as 0 bytes long."""
import sys
sys.path.insert(0, "/tmp/wt/H16")
import pdpy11
assert pdpy11.__file__.startswith("/tmp/wt/H16/"), pdpy11.__file__
from pdpy11 import parser, reports
from pdpy11.compiler import Compiler


def assemble(*sources, names=None):
    msgs = []
    def handler(priority, identifier, *spans):
        msgs.append((priority.raw_text, identifier))
    try:
        with reports.handle_reports(handler):
            files = [parser.parse(names[i] if names else "/tmp/wt/H16/_scratch/f%d.mac" % i, s) for i, s in enumerate(sources)]
            base, code = Compiler().compile_and_link_files(files)
        return base, bytes(code), msgs
    except reports.UnrecoverableError:
        return None, None, msgs


def hx(code):
    return None if code is None else code.hex()

import os, struct
HERE = os.path.dirname(os.path.abspath(__file__))
MAIN = os.path.join(HERE, "files", "main.mac")     # data.mac lies next to it: '.word 7, 7'

# 143 (octal) is the letter 'c': the name is "data.ma" + chr(sfx) = "data.mac"
F1 = "sfx == 143\n"
F2 = '.include "data.ma"<sfx>\nhere: .word here\n'

# First principles (base 1000): 7, 7 at 1000..1003, so here = 1004 and '.word here' is 001004
expected = struct.pack("<3H", 7, 7, 0o1004)

_, c_concat, m1 = assemble(F1 + F2, names=[MAIN])
_, c_linked, m2 = assemble(F1, F2, names=[os.path.join(HERE, "files", "f1.mac"), MAIN])
_, c_fwd, m3 = assemble(F2 + "sfx = 143\n", names=[MAIN])
print("expected                     :", expected.hex())
print("concatenation F1+F2          :", hx(c_concat), m1)
print("linked F1 F2                 :", hx(c_linked), m2)
print("one file, sfx defined below  :", hx(c_fwd), m3)

bad = False
if c_concat != expected:
    print("UNEXPECTED: the control program is wrong")
    bad = True
if c_linked != expected:
    print("DEFECT: linking F1 F2 differs from their concatenation: the label after the '.include' "
          "got the address of the '.include' itself, as if the included file were empty (wrong bytes, no diagnostic)")
    bad = True
if c_fwd != expected:
    print("DEFECT: same wrong layout in a single file when the name depends on a symbol defined below")
    bad = True
sys.exit(1 if bad else 0)
