"""'.end' inside a '.repeat' body does not discard the rest of the file."""
import sys
sys.path.insert(0, "/tmp/wt/H16")
import pdpy11
assert pdpy11.__file__.startswith("/tmp/wt/H16/"), pdpy11.__file__
from pdpy11 import parser, reports
from pdpy11.compiler import Compiler


def assemble(*sources):
    msgs = []
    def handler(priority, identifier, *spans):
        msgs.append((priority.raw_text, identifier))
    try:
        with reports.handle_reports(handler):
            files = [parser.parse("/tmp/wt/H16/_scratch/f%d.mac" % i, s) for i, s in enumerate(sources)]
            base, code = Compiler().compile_and_link_files(files)
        return base, bytes(code), msgs
    except reports.UnrecoverableError:
        return None, None, msgs


BODY = ".word 1\n.end\n.word 2\n"
rolled = ".word 7\n.repeat 3 {\n" + BODY + "}\n.word 6\n"
unrolled = ".word 7\n" + BODY * 3 + ".word 6\n"

# First principles: '.end' discards exactly the rest of its own file, so both
# programs are '.word 7', '.word 1' and nothing else.
expected = bytes([7, 0, 1, 0])

_, code_unrolled, _ = assemble(unrolled)
_, code_rolled, msgs = assemble(rolled)
print("written out 3 times:", code_unrolled.hex())
print(".repeat 3 { ... }  :", None if code_rolled is None else code_rolled.hex(), msgs)
print("expected           :", expected.hex())

bad = False
if code_unrolled != expected:
    print("UNEXPECTED: even the written-out program is wrong")
    bad = True
if code_rolled != expected:
    print("DEFECT: '.end' inside '.repeat' only ended one iteration of the body; "
          "the other iterations and the rest of the file ('.word 6') were still assembled")
    bad = True
sys.exit(1 if bad else 0)
