"""A local label defined outside a .repeat cannot be referenced from the body."""
import sys
sys.path.insert(0, "/tmp/wt/H16")
import pdpy11
assert pdpy11.__file__.startswith("/tmp/wt/H16/"), pdpy11.__file__
from pdpy11 import parser, reports
from pdpy11.compiler import Compiler


def assemble(*sources, names=None):
    msgs = []
    def handler(priority, identifier, *spans):
        msgs.append((priority.raw_text, identifier))
    try:
        with reports.handle_reports(handler):
            files = [parser.parse(names[i] if names else "/tmp/wt/H16/_scratch/f%d.mac" % i, s) for i, s in enumerate(sources)]
            base, code = Compiler().compile_and_link_files(files)
        return base, bytes(code), msgs
    except reports.UnrecoverableError:
        return None, None, msgs


def hx(code):
    return None if code is None else code.hex()

# A loop whose body is unrolled; the branch goes back to the local label '1'.
rolled = "1: tst (r0)+\n.repeat 3 {\nbeq 1\ninc r1\n}\nhalt\n"
unrolled = "1: tst (r0)+\n" + "beq 1\ninc r1\n" * 3 + "halt\n"

# First principles (base 1000 octal):
#   1000 tst (r0)+  005720
#   1002 beq 1000   001400 | (-2 & 377) = 001776
#   1004 inc r1     005201
#   1006 beq 1000   001774 ; 1010 inc r1 ; 1012 beq 1000 001772 ; 1014 inc r1 ; 1016 halt
import struct
expected = struct.pack("<8H", 0o005720, 0o001776, 0o005201, 0o001774, 0o005201, 0o001772, 0o005201, 0)

_, code_unrolled, m_unrolled = assemble(unrolled)
_, code_rolled, m_rolled = assemble(rolled)
print("expected           :", expected.hex())
print("written out 3 times:", hx(code_unrolled), m_unrolled)
print(".repeat 3 { ... }  :", hx(code_rolled), m_rolled)

bad = False
if code_unrolled != expected:
    print("UNEXPECTED: the written-out program is wrong")
    bad = True
if code_rolled != expected:
    print("DEFECT: the legal program is refused: local label '1' of the enclosing scope "
          "is reported as an unknown symbol when referenced from a '.repeat' body")
    bad = True
sys.exit(1 if bad else 0)
