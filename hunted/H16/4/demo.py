"""'.once' and a '.repeat' whose count is defined further down: the file contributes at the wrong inclusion."""
import sys
sys.path.insert(0, "/tmp/wt/H16")
import pdpy11
assert pdpy11.__file__.startswith("/tmp/wt/H16/"), pdpy11.__file__
from pdpy11 import parser, reports
from pdpy11.compiler import Compiler


def assemble(*sources, names=None):
    msgs = []
    def handler(priority, identifier, *spans):
        msgs.append((priority.raw_text, identifier))
    try:
        with reports.handle_reports(handler):
            files = [parser.parse(names[i] if names else "/tmp/wt/H16/_scratch/f%d.mac" % i, s) for i, s in enumerate(sources)]
            base, code = Compiler().compile_and_link_files(files)
        return base, bytes(code), msgs
    except reports.UnrecoverableError:
        return None, None, msgs


def hx(code):
    return None if code is None else code.hex()

import os
HERE = os.path.dirname(os.path.abspath(__file__))
MAIN = os.path.join(HERE, "files", "main.mac")     # once.mac lies next to it: '.once' / '.word 7'

BODY = '.include "once.mac"\n.word 2\n'
rolled = ".repeat n {\n" + BODY + "}\n" + '.include "once.mac"\n.word 1\nn = 1\n'
unrolled = BODY * 1 + '.include "once.mac"\n.word 1\nn = 1\n'
rolled_literal = rolled.replace(".repeat n {", ".repeat 1 {")

# First principles: once.mac contributes at its FIRST inclusion only, which is
# the one inside the loop body: 7, 2, 1.
expected = bytes([7, 0, 2, 0, 1, 0])

_, c_unrolled, m1 = assemble(unrolled, names=[MAIN])
_, c_literal, m2 = assemble(rolled_literal, names=[MAIN])
_, c_rolled, m3 = assemble(rolled, names=[MAIN])
print("expected                          :", expected.hex())
print("body written out once             :", hx(c_unrolled), m1)
print(".repeat 1 { ... }                 :", hx(c_literal), m2)
print(".repeat n { ... } with n = 1 below:", hx(c_rolled), m3)

# the same through linking: the count is exported by the file linked first
F1 = "n == 1\n"
F2 = ".repeat n {\n" + BODY + "}\n" + '.include "once.mac"\n.word 1\n'
_, c_linked, m4 = assemble(F1, F2, names=[os.path.join(HERE, "files", "f1.mac"), MAIN])
_, c_concat, m5 = assemble(F1 + F2, names=[MAIN])
print("linked F1 F2 (n exported by F1)   :", hx(c_linked), m4)
print("concatenation F1+F2               :", hx(c_concat), m5)

bad = False
if c_unrolled != expected or c_literal != expected or c_concat != expected:
    print("UNEXPECTED: control programs are wrong")
    bad = True
if c_rolled != expected:
    print("DEFECT: with a count defined below, the '.once' file contributed at its SECOND inclusion "
          "(after the loop) instead of the first one (in the loop body): wrong bytes, no diagnostic")
    bad = True
if c_linked != expected:
    print("DEFECT: linking F1 F2 differs from their concatenation for the same reason")
    bad = True
sys.exit(1 if bad else 0)
