"""The string operand of .ascii/.asciz swallows the next source line when that
line starts with ' " / or <."""
import sys
sys.path.insert(0, "/tmp/wt/H06")
import pdpy11
assert pdpy11.__file__.startswith("/tmp/wt/H06/"), pdpy11.__file__
from pdpy11 import parser, reports, bk_encoding
from pdpy11.compiler import Compiler


def assemble(*sources, charset="bk"):
    msgs = []
    def handler(priority, identifier, *spans):
        msgs.append((priority.raw_text, identifier, repr(spans[0][0])))
    try:
        with reports.handle_reports(handler):
            files = [parser.parse("/tmp/wt/H06/_out/2/f%d.mac" % i, s) for i, s in enumerate(sources)]
            base, code = Compiler(output_charset=charset).compile_and_link_files(files)
        return base, bytes(code), msgs
    except reports.UnrecoverableError:
        return None, None, msgs


bad = 0
CASES = [
    # two complete statements on two lines; the second one is an implicit word list
    ('.asciz "x"\n<1>\n',          b"x\x00" + b"\x01\x00"),        # '<1>' alone == '.word 1'
    ('.asciz "x" ; text\n<1>\n',   b"x\x00" + b"\x01\x00"),
    ('.ascii "xy"\n\'a\n',         b"xy" + b"a\x00"),              # "'a" alone == '.word 97.'
    ('.ascii "xy"\n"ab\n',         b"xy" + b"ab"),                 # '"ab' alone == '.word 0x6261'
    ('.ascii "xy"\n<2+2>, 6\n',    b"xy" + b"\x04\x00\x06\x00"),
]
for src, expected in CASES:
    first, second = src.split("\n")[:2]
    alone1 = assemble(first + "\n")[1]
    alone2 = assemble(second + "\n")[1]
    assert alone1 is not None and alone2 is not None and alone1 + alone2 == expected, (src, alone1, alone2)
    base, code, msgs = assemble(src)
    if code != expected:
        bad += 1
        print("DEFECT for source %r" % src)
        print("   line 1 alone -> %s ; line 2 alone -> %s" % (alone1.hex(" "), alone2.hex(" ")))
        print("   expected image:", expected.hex(" "))
        print("   got           :", "refused: %r" % msgs if code is None else code.hex(" "))

if bad:
    print("FAIL: the string of .ascii/.asciz continues across the end of its line")
    sys.exit(1)
print("OK")
