"""'.include' is declared with size 0. When its path cannot be computed at once,
the statements after it are laid out as if the included file were empty:
'.even' pads nothing at an odd address and '.word' lands on an odd address
without the odd-address error."""
import os
import sys
sys.path.insert(0, "/tmp/wt/H06")
import pdpy11
assert pdpy11.__file__.startswith("/tmp/wt/H06/"), pdpy11.__file__
from pdpy11 import parser, reports, bk_encoding
from pdpy11.compiler import Compiler

HERE = "/tmp/wt/H06/_out/4"


def assemble(*sources, charset="bk"):
    msgs = []
    def handler(priority, identifier, *spans):
        msgs.append((priority.raw_text, identifier, repr(spans[0][0])))
    try:
        with reports.handle_reports(handler):
            files = [parser.parse(HERE + "/f%d.mac" % i, s) for i, s in enumerate(sources)]
            base, code = Compiler(output_charset=charset).compile_and_link_files(files)
        return base, bytes(code), msgs
    except reports.UnrecoverableError:
        return None, None, msgs


with open(HERE + "/inc_byte.mac", "w") as f:
    f.write(".byte 7\n")

bad = 0

# Reference: the path is a plain string. One byte at 1000, one byte of padding, the word at 1002.
ref = assemble('.include "inc_byte.mac"\n.even\n.word 5\n')
assert ref[:2] == (0o1000, b"\x07\x00\x05\x00"), ref

# The same program, the first letter of the path given as <c> with c = 'i' (octal 151) defined below.
src = '.include <c>"nc_byte.mac"\n.even\n.word 5\nc = 151\n'
base, code, msgs = assemble(src)
print("source:", repr(src))
print("result:", base, None if code is None else code.hex(" "), msgs)
if base is not None and code != b"\x07\x00\x05\x00":
    bad += 1
    print("DEFECT: expected 07 00 05 00 (or a refusal); '.even' at the odd address 1001 emitted no fill")
    print("        and the word 5 sits at the odd address 1001 without an 'odd-address' error")

# ... and a word right after the include, with no .even: must be an odd-address error
src2 = '.include <c>"nc_byte.mac"\nl: .word l\nc = 151\n'
base, code, msgs = assemble(src2)
print("source:", repr(src2))
print("result:", base, None if code is None else code.hex(" "), msgs)
if base is not None:
    bad += 1
    print("DEFECT: '.word' at address 1001 accepted (and label l = %o although it is placed at 1001)" % int.from_bytes(code[1:3], "little"))

os.remove(HERE + "/inc_byte.mac")
if bad:
    print("FAIL")
    sys.exit(1)
print("OK")
