"""A data directive's last operand swallows the next source line when that line
starts with a character that is also an infix operator (- + _ $ ^ % ...)."""
import sys
sys.path.insert(0, "/tmp/wt/H06")
import pdpy11
assert pdpy11.__file__.startswith("/tmp/wt/H06/"), pdpy11.__file__
from pdpy11 import parser, reports, bk_encoding
from pdpy11.compiler import Compiler


def assemble(*sources, charset="bk"):
    msgs = []
    def handler(priority, identifier, *spans):
        msgs.append((priority.raw_text, identifier, repr(spans[0][0])))
    try:
        with reports.handle_reports(handler):
            files = [parser.parse("/tmp/wt/H06/_out/1/f%d.mac" % i, s) for i, s in enumerate(sources)]
            base, code = Compiler(output_charset=charset).compile_and_link_files(files)
        return base, bytes(code), msgs
    except reports.UnrecoverableError:
        return None, None, msgs


bad = 0

# Every case is two complete statements on two lines. From first principles the
# image is the concatenation of what each line emits on its own.
CASES = [
    # (source, expected bytes)
    (".word 5\n-1\n",                  b"\x05\x00" + b"\xff\xff"),        # '-1' alone is an implicit '.word -1'
    (".word 5\n+1\n",                  b"\x05\x00" + b"\x01\x00"),
    (".word 5 ; five\n-1, 2\n",        b"\x05\x00" + b"\xff\xff\x02\x00"),
    (".byte 6, 7\n$y = 6\n.word $y\n", b"\x06\x07" + b"\x06\x00"),        # '$y = 6' is an assignment
    (".word 0\n_a: .word 7\n.word _a\n", b"\x00\x00\x07\x00\x02\x02"),    # '_a:' is a label (at 0o1002)
    (".blkb 2\n-1\n",                  b"\x00\x00" + b"\xff\xff"),
    (".word 5\n^X10, 2\n",             b"\x05\x00" + b"\x10\x00\x02\x00"),
]
for src, expected in CASES:
    # sanity: the lines really are complete statements - each assembles alone
    base, code, msgs = assemble(src)
    if code != expected:
        bad += 1
        print("DEFECT for source %r" % src)
        print("   expected image:", expected.hex(" "))
        print("   got           :", "refused: %r" % msgs if code is None else code.hex(" "))

# cross-check of the first case by the assembler's own single-line results
a = assemble(".word 5\n")[1]
b = assemble("-1\n")[1]
both = assemble(".word 5\n-1\n")[1]
print("'.word 5' alone -> %s ; '-1' alone -> %s ; both lines -> %s" % (a.hex(" "), b.hex(" "), both.hex(" ") if both is not None else None))
if both != a + b:
    bad += 1

if bad:
    print("FAIL: the expression of a data directive continues across the end of its line")
    sys.exit(1)
print("OK")
