"""'.include' opens the included source with the locale's preferred encoding,
while the files named on the command line are always read as UTF-8. Under a
non-UTF-8 locale a correct UTF-8 include file with a Cyrillic .ascii string is
refused ("is not in UTF-8"), or - with an 8-bit locale such as Latin-1 or a
Windows code page - silently assembled to different bytes."""
import os
import subprocess
import sys
sys.path.insert(0, "/tmp/wt/H06")

ROOT = "/tmp/wt/H06"
HERE = ROOT + "/_out/5/work"
os.makedirs(HERE, exist_ok=True)

TEXT = '.ascii "я"\n'                     # Cyrillic small ya; koi8-r: 0xD1
with open(HERE + "/cyr.mac", "w", encoding="utf-8") as f:
    f.write(TEXT)
with open(HERE + "/direct.mac", "w", encoding="utf-8") as f:
    f.write(TEXT)
with open(HERE + "/via_include.mac", "w", encoding="utf-8") as f:
    f.write('.include "cyr.mac"\n')

env = dict(os.environ)
env.update({"LC_ALL": "C", "LANG": "C", "PYTHONCOERCECLOCALE": "0", "PYTHONUTF8": "0"})
env.pop("PYTHONIOENCODING", None)
env["PYTHONPATH"] = ROOT   # the worktree copy of pdpy11 is the one that runs


def run(name):
    out = HERE + "/" + name + ".raw"
    if os.path.exists(out):
        os.remove(out)
    p = subprocess.run([sys.executable, "-m", "pdpy11", HERE + "/" + name + ".mac", "-o", out,
                        "--charset", "koi8-r", "--report-format", "bare"],
                       env=env, cwd=ROOT, capture_output=True, text=True)
    data = open(out, "rb").read() if os.path.exists(out) else None
    return p.returncode, data, (p.stdout + p.stderr).strip()

enc = subprocess.run([sys.executable, "-c", "import locale; print(locale.getpreferredencoding(False))"],
                     env=env, capture_output=True, text=True).stdout.strip()
print("preferred encoding of the child interpreter:", enc)

rc1, data1, log1 = run("direct")
rc2, data2, log2 = run("via_include")
print("direct      : rc=%d image=%r" % (rc1, data1))
print("via .include: rc=%d image=%r\n   %s" % (rc2, data2, log2))

# First principles: U+044F in koi8-r is the single byte 0xD1, wherever the statement is written.
assert rc1 == 0 and data1 == b"\xd1", (rc1, data1, log1)
if rc2 != 0 or data2 != b"\xd1":
    print("DEFECT: the same UTF-8 text assembles when given on the command line, but not when reached through .include")
    sys.exit(1)
print("OK")
