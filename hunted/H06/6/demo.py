"""The two-hex-digit escape \\xNN does not produce the byte NN: the assembler
turns it into the Unicode character U+00NN and then transcodes that character
into the output charset."""
import sys
sys.path.insert(0, "/tmp/wt/H06")
import pdpy11
assert pdpy11.__file__.startswith("/tmp/wt/H06/"), pdpy11.__file__
from pdpy11 import parser, reports, bk_encoding
from pdpy11.compiler import Compiler


def assemble(*sources, charset="bk"):
    msgs = []
    def handler(priority, identifier, *spans):
        msgs.append((priority.raw_text, identifier, repr(spans[0][0])))
    try:
        with reports.handle_reports(handler):
            files = [parser.parse("/tmp/wt/H06/_out/6/f%d.mac" % i, s) for i, s in enumerate(sources)]
            base, code = Compiler(output_charset=charset).compile_and_link_files(files)
        return base, bytes(code), msgs
    except reports.UnrecoverableError:
        return None, None, msgs


bad = 0
for cs in ["bk", "utf-8", "koi8-r", "latin-1", "cp866"]:
    refused, wrong = [], []
    for n in range(256):
        # the other way of writing a raw byte, <n>, is the yardstick: it gives byte n in every charset
        assert assemble('.ascii <0x%02x>' % n, charset=cs)[1] == bytes([n])
        base, code, msgs = assemble('.ascii "\\x%02x"' % n, charset=cs)
        if base is None:
            refused.append(n)
        elif code != bytes([n]):
            wrong.append((n, code))
    print("%-8s refused: %3d   different bytes: %3d   e.g. %s" % (
        cs, len(refused), len(wrong),
        ", ".join('"\\x%02x" -> %s' % (n, c.hex(" ")) for n, c in wrong[:4]) or "-"))
    bad += len(refused) + len(wrong)

base, code, msgs = assemble('.ascii "\\xb6"')                 # default charset
print('default charset: .ascii "\\xb6" ->', None if code is None else code.hex(" "), "(expected b6)")
base, code, msgs = assemble('.ascii "\\x7f"')
print('default charset: .ascii "\\x7f" ->', "refused %r" % [m[1] for m in msgs] if code is None else code.hex(" "), "(expected 7f)")
base, code, msgs = assemble('.asciz "\\xff"', charset="utf-8")
print('utf-8: .asciz "\\xff" ->', code.hex(" "), "(expected ff 00: one byte per \\xNN)")

if bad:
    print("FAIL: \\xNN is not the byte NN in %d (charset, NN) combinations" % bad)
    sys.exit(1)
print("OK")
