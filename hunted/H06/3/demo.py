"""The \\xHH escape skips white space - and even a ';' comment running to the end
of the line - between '\\x' and the two hexadecimal digits."""
import sys
sys.path.insert(0, "/tmp/wt/H06")
import pdpy11
assert pdpy11.__file__.startswith("/tmp/wt/H06/"), pdpy11.__file__
from pdpy11 import parser, reports, bk_encoding
from pdpy11.compiler import Compiler


def assemble(*sources, charset="bk"):
    msgs = []
    def handler(priority, identifier, *spans):
        msgs.append((priority.raw_text, identifier, repr(spans[0][0])))
    try:
        with reports.handle_reports(handler):
            files = [parser.parse("/tmp/wt/H06/_out/3/f%d.mac" % i, s) for i, s in enumerate(sources)]
            base, code = Compiler(output_charset=charset).compile_and_link_files(files)
        return base, bytes(code), msgs
    except reports.UnrecoverableError:
        return None, None, msgs


bad = 0

# reference behaviour of the assembler itself: a malformed \x escape is an error
for src in ['.ascii "\\x4"', '.ascii "\\x4g"', '.ascii "\\xg1"', '.ascii "\\x"']:
    assert assemble(src)[0] is None, src
assert assemble('.ascii "\\x41"')[1] == b"A"

# In all of these the two characters after '\x' are not two hex digits, so the
# escape is malformed and the statement has to be refused ('invalid-escape').
# (If one insisted on accepting them, the blank would have to be part of the
# string: no reading yields the single byte 'A'.)
CASES = [
    '.ascii "\\x 41"',              # a blank
    '.ascii "\\x\t41"',             # a tab
    '.ascii "\\x\n41"',             # a line break
    '.ascii "\\x ; note\n41"',      # a comment and a line break
    '.ascii "\\x;"\n41"',           # the closing quote of line 1 is skipped as part of a comment
    ".byte '\\x 41",                # the same in a character literal
    '.word "\\x 41\\x  42',
]
for src in CASES:
    base, code, msgs = assemble(src)
    if base is not None:
        bad += 1
        print("DEFECT: %r is accepted without any diagnostic and emits %r" % (src, code))

if bad:
    print("FAIL: malformed \\x escapes are silently accepted")
    sys.exit(1)
print("OK")
