"""A definition (or use) of a name that starts with '_' or '$' at the beginning of a line is swallowed by the
expression that ends the previous line ('_' = shift operator, '$' = call operator, and binary operators are
accepted across a newline): the symbol is never defined, or a different symbol is bound silently."""
import sys, os, struct
sys.path.insert(0, "/tmp/wt/H11")
import pdpy11
assert os.path.abspath(pdpy11.__file__).startswith("/tmp/wt/H11/"), pdpy11.__file__
from pdpy11 import parser, reports, bk_encoding
from pdpy11.compiler import Compiler

def assemble(text):
    msgs = []
    def handler(priority, identifier, *spans):
        msgs.append((priority.raw_text, identifier, "%r %s" % (spans[0][0], spans[0][2].split("\n")[0])))
    try:
        with reports.handle_reports(handler):
            base, code = Compiler().compile_and_link_files([parser.parse("/tmp/wt/H11/_out/5/main.mac", text)])
        return base, bytes(code), msgs
    except reports.UnrecoverableError:
        return None, None, msgs

W = lambda *w: struct.pack("<%dH" % len(w), *w)
bad = False

# reference: the very same label after an operand-less instruction is fine
b, c, m = assemble("\tnop\n_main:\tinc r0\n\tbr _main\n")
assert c == W(0o240, 0o5200, 0o776), (c, m)

# 1. ordinary label '_main' after an instruction that has an operand
#    1000: CLR @#100 = 005037 000100 ; 1004 _main: INC R0 = 005200 ; 1006: BR 1004 = 000400|(-2&377) = 000776
src = "\tclr @#100\n_main:\tinc r0\n\tbr _main\n"
b, c, m = assemble(src)
if c != W(0o5037, 0o100, 0o5200, 0o776):
    bad = True
    print("DEFECT 1: legal program refused:\n%s  got %s %s" % (src, c, m))

# 2. constant '$y' defined on the line after another constant
src = "x = 5\n$y = 7\n.word $y\n"
b, c, m = assemble(src)
if c != W(7):
    bad = True
    print("DEFECT 2: legal program refused:\n%s  got %s %s" % (src, c, m))

# 3. silent: 'x = 4' followed by the label '_a:' is read as 'x = 4 _ a:' (4 shifted left by the constant a)
src = "a = 1\nx = 4\n_a:\t.word x\n"
b, c, m = assemble(src)
if c != W(4):
    bad = True
    print("DEFECT 3: silently wrong code:\n%s  got %s (x = %s), expected 0400 (x = 4); diagnostics %s" % (src, None if c is None else c.hex(), None if c is None else oct(struct.unpack("<H", c)[0]), m))

if bad:
    sys.exit(1)
print("ok")
