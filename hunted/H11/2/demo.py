"""A bare statement 'x' (implicit '.word x') is refused when the constant x is an EXPORTED one of another file,
although it is defined above the statement and visible: '.word x' and 'x, x' in the same place work."""
import sys, os, struct
sys.path.insert(0, "/tmp/wt/H11")
import pdpy11
assert os.path.abspath(pdpy11.__file__).startswith("/tmp/wt/H11/"), pdpy11.__file__
from pdpy11 import parser, reports, bk_encoding
from pdpy11.compiler import Compiler

D = "/tmp/wt/H11/_out/2/"

def assemble(*named):
    msgs = []
    def handler(priority, identifier, *spans):
        msgs.append((priority.raw_text, identifier, spans[0][2].split("\n")[0]))
    try:
        with reports.handle_reports(handler):
            files = [parser.parse(D + n, s) for n, s in named]
            base, code = Compiler().compile_and_link_files(files)
        return base, bytes(code), msgs
    except reports.UnrecoverableError:
        return None, None, msgs

with open(D + "consts.mac", "w") as f:
    f.write("x == 5\n")

bad = False
W = lambda *w: struct.pack("<%dH" % len(w), *w)

# reference behaviour: the constant is visible in the second file / in the including file
for name, progs, exp in (
    ("linked, '.word x'", [("a.mac", "x == 5\n"), ("b.mac", ".word x\n")], W(5)),
    ("linked, 'x, x'",    [("a.mac", "x == 5\n"), ("b.mac", "x, x\n")], W(5, 5)),
    ("own file, 'x'",     [("a.mac", "x == 5\nx\n")], W(5)),
):
    b, c, m = assemble(*progs)
    assert c == exp, ("reference case failed", name, c, m)

# the defect: same constant, defined above, but in another (linked or included) file
for name, progs, exp in (
    ("linked file, bare 'x'",   [("a.mac", "x == 5\n"), ("b.mac", "x\n")], W(5)),
    ("included header, bare 'x'", [("main.mac", '.include "consts.mac"\nx\n')], W(5)),
):
    b, c, m = assemble(*progs)
    if c != exp:
        bad = True
        print("DEFECT (%s): expected code %s, got %s, diagnostics %s" % (name, exp.hex(), None if c is None else c.hex(), m))

if bad:
    print("The exported constant is defined above the statement and is visible there ('.word x' and 'x, x' work),")
    print("so the bare statement must be the implicit '.word x' = 000005.")
    sys.exit(1)
print("ok")
