"""An exported label of an included file is reported as undefined when the '.include' stands in a '.repeat'
whose count is a constant exported by a LATER linked file and the reference precedes the '.repeat'.
The same program with the files linked in the other order, or with the reference after the '.repeat', assembles."""
import sys, os, struct
sys.path.insert(0, "/tmp/wt/H11")
import pdpy11
assert os.path.abspath(pdpy11.__file__).startswith("/tmp/wt/H11/"), pdpy11.__file__
from pdpy11 import parser, reports, bk_encoding
from pdpy11.compiler import Compiler

D = "/tmp/wt/H11/_out/4/"

def assemble(*named):
    msgs = []
    def handler(priority, identifier, *spans):
        msgs.append((priority.raw_text, identifier, " | ".join("%r %s" % (s[0], s[2].split("\n")[0]) for s in spans)))
    try:
        with reports.handle_reports(handler):
            files = [parser.parse(D + n, s) for n, s in named]
            base, code = Compiler().compile_and_link_files(files)
        return base, bytes(code), msgs
    except reports.UnrecoverableError:
        return None, None, msgs

with open(D + "table.mac", "w") as f:
    f.write("table:: .word 5\n")                         # included file: exports 'table'

MAIN = '.word table\n.repeat copies { .include "table.mac" }\n'    # reference, then 'copies' copies of the table
CONF = "copies == 1\n"                                   # configuration constant in its own file

W = lambda *w: struct.pack("<%dH" % len(w), *w)
exp = W(0o1002, 5)       # 1000: .word table (=1002) ; 1002: the included '.word 5'

# reference behaviour: same two files in the other link order; reference after the .repeat
b, c, m = assemble(("conf.mac", CONF), ("main.mac", MAIN))
assert (b, c) == (0o1000, exp), ("reference (conf first) failed", b, c, m)
b, c, m = assemble(("main.mac", '.repeat copies { .include "table.mac" }\n.word table\n'), ("conf.mac", CONF))
assert (b, c) == (0o1000, W(5, 0o1000)), ("reference (use after .repeat) failed", b, c, m)

b, c, m = assemble(("main.mac", MAIN), ("conf.mac", CONF))
if (b, c) != (0o1000, exp):
    print("DEFECT: main.mac + conf.mac:\n--- main.mac\n%s--- conf.mac\n%s--- table.mac\ntable:: .word 5\n  got %s, diagnostics %s"
          % (MAIN, CONF, None if c is None else c.hex(), m))
    print("expected", exp.hex(), "('table' is exported by an included file: usable by every file, in either order)")
    sys.exit(1)
print("ok")
