"""A symbol that is exported twice by the same single definition ('.extern all' + 'x::', '.extern x' + 'x::',
'.extern all' + '.extern x') is reported as a duplicate symbol, although there is only one definition."""
import sys, os, struct
sys.path.insert(0, "/tmp/wt/H11")
import pdpy11
assert os.path.abspath(pdpy11.__file__).startswith("/tmp/wt/H11/"), pdpy11.__file__
from pdpy11 import parser, reports, bk_encoding
from pdpy11.compiler import Compiler

D = "/tmp/wt/H11/_out/3/"

def assemble(*sources):
    msgs = []
    def handler(priority, identifier, *spans):
        msgs.append((priority.raw_text, identifier, " | ".join("%r %s" % (s[0], s[2].split("\n")[0]) for s in spans)))
    try:
        with reports.handle_reports(handler):
            files = [parser.parse(D + "f%d.mac" % i, s) for i, s in enumerate(sources)]
            base, code = Compiler().compile_and_link_files(files)
        return base, bytes(code), msgs
    except reports.UnrecoverableError:
        return None, None, msgs

USER = ".word entry, k\n"                               # second file: uses both exported names
exp = struct.pack("<3H", 0o1000, 0o1000, 7)   # entry=1000: file 0 emits "entry", file 1 emits entry, k

# reference: each export form alone works
for lib in (".extern all\nentry: .word entry\nk = 7\n",
            "entry:: .word entry\nk == 7\n",
            ".extern entry, k\nentry: .word entry\nk = 7\n"):
    b, c, m = assemble(lib, USER)
    assert (b, c) == (0o1000, exp), ("reference failed", lib, c, m)

bad = False
for lib in (".extern all\nentry:: .word entry\nk == 7\n",          # a module that exports everything, entry point marked with '::'
            "entry:: .word entry\nk == 7\n.extern all\n",          # same, '.extern all' at the end
            ".extern all\n.extern entry\nentry: .word entry\nk = 7\n"):
    b, c, m = assemble(lib, USER)
    if (b, c) != (0o1000, exp):
        bad = True
        print("DEFECT: legal program refused:\n--- f0.mac\n%s--- f1.mac\n%s  diagnostics: %s" % (lib, USER, m))
if bad:
    print("There is exactly ONE definition of each name; exporting it by two of the documented forms is not a second definition.")
    print("expected code:", exp.hex())
    sys.exit(1)
print("ok")
