"""A local label cannot be referenced from inside a '.repeat' body that lies in the label's own scope."""
import sys, os, struct
sys.path.insert(0, "/tmp/wt/H11")
import pdpy11
assert os.path.abspath(pdpy11.__file__).startswith("/tmp/wt/H11/"), pdpy11.__file__
from pdpy11 import parser, reports, bk_encoding
from pdpy11.compiler import Compiler

def assemble(text):
    msgs = []
    def handler(priority, identifier, *spans):
        msgs.append((priority.raw_text, identifier, spans[0][2].split("\n")[0]))
    try:
        with reports.handle_reports(handler):
            base, code = Compiler().compile_and_link_files([parser.parse("/tmp/wt/H11/_out/1/main.mac", text)])
        return base, bytes(code), msgs
    except reports.UnrecoverableError:
        return None, None, msgs

SRC = "a:\n1:\tnop\n\t.repeat 2 { br 1 }\n"      # the loop body is unrolled twice; '1' is in the scope of 'a:'
UNROLLED = "a:\n1:\tnop\n\tbr 1\n\tbr 1\n"      # the same program written out by hand

# first principles: 1000: NOP=000240 ; 1002: BR 1000 -> 000400|((1000-1004)/2 & 377)=000776 ; 1004: BR 1000 -> 000775
expected = struct.pack("<3H", 0o000240, 0o000776, 0o000775)

b2, c2, m2 = assemble(UNROLLED)
assert (b2, c2) == (0o1000, expected), ("hand-unrolled reference program is wrong?!", b2, c2, m2)

bad = False
for src in (SRC,
            "a:\n\t.repeat 2 { br 1$ }\n1$:\tnop\n",           # forward reference, '1$' spelling
            "a:\n7$:\t.word 0\n\t.repeat 1 { .word 7$ }\n"):    # not only branches
    b, c, m = assemble(src)
    if c is None:
        bad = True
        print("DEFECT: legal program refused:\n" + src + "  diagnostics:", m)
b, c, m = assemble(SRC)
if c is not None and c != expected:
    bad = True
    print("DEFECT: wrong code", c.hex(), "expected", expected.hex())
if bad:
    print("expected (same as hand-unrolled):", expected.hex(), "- the local label is in the scope of the '.repeat' statement")
    sys.exit(1)
print("ok: local labels are visible inside '.repeat' bodies of their scope")
