"""C07: a decimal literal with more than 4300 digits makes the parser die with ValueError (Python's int<->str digit
limit) - 'unexpected internal compiler error' + traceback - whereas the same value written in hexadecimal is diagnosed
with a proper 'value-out-of-bounds' error."""
import os, shutil, subprocess, sys, tempfile
ROOT = "/tmp/wt/H07"
sys.path.insert(0, ROOT)
import pdpy11
assert pdpy11.__file__.startswith(ROOT + "/"), pdpy11.__file__

N = 4301
CASES = {
    "hex (reference)":   ".word 0x" + "f" * N + "\n",
    "decimal with dot":  ".word " + "1" * N + ".\n",
    "^D decimal":        ".word ^D" + "1" * N + "\n",
    "digits 8/9":        ".word " + "9" * N + "\n",
    "in a comment (ok)": "nop ; " + "1" * N + ".\n",
}
os.makedirs(ROOT + "/_scratch", exist_ok=True)
defect = False
for name, src in CASES.items():
    d = tempfile.mkdtemp(prefix="c07_5_", dir=ROOT + "/_scratch")
    try:
        with open(os.path.join(d, "a.mac"), "w") as f:
            f.write(src)
        r = subprocess.run([sys.executable, "-m", "pdpy11", "a.mac", "-o", "o.bin", "--report-format", "bare"],
                           cwd=d, env=dict(os.environ, PYTHONPATH=ROOT), capture_output=True)
    finally:
        shutil.rmtree(d, ignore_errors=True)
    internal = b"internal compiler error" in r.stderr or b"Traceback" in r.stderr
    diagnosed = b": Error: " in r.stdout
    last = r.stderr.decode(errors="replace").strip().splitlines()[-1] if r.stderr.strip() else ""
    print(f"{name:20} rc={r.returncode} error-diagnostic={diagnosed} internal-error={internal} | {last[:100]}")
    # failure is only allowed together with an error diagnostic
    if internal or ((r.returncode != 0) != diagnosed):
        defect = True
if defect:
    print("\nDEFECT: the run fails with an internal error although no error-severity diagnostic was issued.")
    sys.exit(1)
print("OK")
