"""C07: with '--report-format bare' the diagnostics go to stdout, the same stream '-o -' writes the image to.
The bytes emitted on stdout therefore depend on the report format and on which warnings are enabled."""
import os, shutil, subprocess, sys, tempfile
ROOT = "/tmp/wt/H07"
sys.path.insert(0, ROOT)
import pdpy11
assert pdpy11.__file__.startswith(ROOT + "/"), pdpy11.__file__

SRC = ".byte\n"          # legal; only the default-enabled warning 'implicit-operand'
EXPECTED = b"\x00"       # '.byte' without operand is '.byte 0'; '-o -' is the raw format: the image itself

os.makedirs(ROOT + "/_scratch", exist_ok=True)
d = tempfile.mkdtemp(prefix="c07_1_", dir=ROOT + "/_scratch")
try:
    with open(os.path.join(d, "a.mac"), "w") as f:
        f.write(SRC)
    env = dict(os.environ, PYTHONPATH=ROOT)
    results = {}
    for fmt in ("graphical", "bare"):
        for w in ([], ["-Wno-implicit-operand"]):
            r = subprocess.run([sys.executable, "-m", "pdpy11", "a.mac", "-o", "-", "--report-format", fmt] + w,
                               cwd=d, env=env, capture_output=True)
            results[(fmt, tuple(w))] = (r.returncode, r.stdout)
            print(f"format={fmt:9} {' '.join(w) or '(default warnings)':24} rc={r.returncode} stdout={r.stdout!r}")
finally:
    shutil.rmtree(d, ignore_errors=True)

bad = {k: v for k, v in results.items() if v != (0, EXPECTED)}
if bad:
    print("\nDEFECT: the image written to stdout by '-o -' must be exactly", EXPECTED, "with exit status 0 for every")
    print("report format and warning selection, but these runs differ:")
    for k, v in bad.items():
        print("  ", k, "->", v)
    sys.exit(1)
print("OK: stdout carries the same image in all four runs")
