"""C07: a file that includes itself from a statement whose evaluation is postponed (a '.repeat' with a count defined
further down, or an '.include' path with a '<x>' chunk defined further down) is not caught by the include-depth guard:
the run ends in RecursionError / DeferredCycle tracebacks instead of the 'recursive-include' error."""
import os, shutil, subprocess, sys, tempfile
ROOT = "/tmp/wt/H07"
sys.path.insert(0, ROOT)
import pdpy11
assert pdpy11.__file__.startswith(ROOT + "/"), pdpy11.__file__

CASES = {
    # reference: immediate self-inclusion is diagnosed properly
    "immediate (reference)":  '.include "a.mac"\n',
    "repeat, count below":    '.repeat n { .include "a.mac" }\nn = 1\n',
    "path chunk below":       '.include "a.ma" <x>\nx = 143\n',          # 143 octal = 'c'
}
os.makedirs(ROOT + "/_scratch", exist_ok=True)
defect = False
for name, src in CASES.items():
    d = tempfile.mkdtemp(prefix="c07_4_", dir=ROOT + "/_scratch")
    try:
        with open(os.path.join(d, "a.mac"), "w") as f:
            f.write(src)
        r = subprocess.run([sys.executable, "-m", "pdpy11", "a.mac", "-o", "o.bin", "--report-format", "bare"],
                           cwd=d, env=dict(os.environ, PYTHONPATH=ROOT), capture_output=True, timeout=300)
    finally:
        shutil.rmtree(d, ignore_errors=True)
    internal = b"internal compiler error" in r.stderr or b"Traceback" in r.stderr
    diagnosed = b": Error: " in r.stdout
    last = r.stderr.decode(errors="replace").strip().splitlines()[-1] if r.stderr.strip() else ""
    print(f"{name:24} rc={r.returncode} error-diagnostic={diagnosed} internal-error={internal} | {last[:80]}")
    # An endlessly self-including file cannot be assembled: the run has to fail through an error diagnostic
    if internal or not (r.returncode != 0 and diagnosed):
        defect = True
if defect:
    print("\nDEFECT: failure without any error-severity diagnostic (internal error) for a self-including file.")
    sys.exit(1)
print("OK")
