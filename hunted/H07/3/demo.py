"""C07: '--lst' for a source file whose name is not valid UTF-8 (perfectly legal on Linux): the image is written, the
listing file is created empty, then the run dies with a traceback and exit status 1."""
import os, shutil, subprocess, sys, tempfile
ROOT = "/tmp/wt/H07"
sys.path.insert(0, ROOT)
import pdpy11
assert pdpy11.__file__.startswith(ROOT + "/"), pdpy11.__file__

NAME = b"caf\xe9.mac"                    # 'café.mac' in Latin-1; not decodable as UTF-8
SRC = b"x: nop\n"                        # legal, no diagnostics at all
EXPECTED_BIN = b"\x00\x02\x02\x00\xa0\x00"   # base 001000, length 2, NOP = 000240

os.makedirs(ROOT + "/_scratch", exist_ok=True)
d = tempfile.mkdtemp(prefix="c07_3_", dir=ROOT + "/_scratch").encode()
try:
    with open(os.path.join(d, NAME), "wb") as f:
        f.write(SRC)
    env = dict(os.environ, PYTHONPATH=ROOT)
    r0 = subprocess.run([sys.executable.encode(), b"-m", b"pdpy11", NAME, b"-o", b"o.bin"], cwd=d, env=env, capture_output=True)
    files0 = {n: open(os.path.join(d, n), "rb").read() for n in os.listdir(d) if n != NAME}
    for n in files0: os.unlink(os.path.join(d, n))
    r = subprocess.run([sys.executable.encode(), b"-m", b"pdpy11", NAME, b"-o", b"o.bin", b"--lst"], cwd=d, env=env, capture_output=True)
    files = {n: open(os.path.join(d, n), "rb").read() for n in os.listdir(d) if n != NAME}
finally:
    shutil.rmtree(d, ignore_errors=True)

print("without --lst: rc =", r0.returncode, "files =", files0)
print("with    --lst: rc =", r.returncode, "files =", files)
tail = r.stderr.decode(errors="replace").strip().splitlines()[-1:] 
print("last stderr line:", tail)
internal = b"internal compiler error" in r.stderr or b"Traceback" in r.stderr
ok_success = r.returncode == 0 and files.get(b"o.bin") == EXPECTED_BIN and b"001000 x" in files.get(b"o.lst", b"") and not internal
ok_clean_failure = r.returncode != 0 and not files and not internal   # would at least be consistent
if not (ok_success or ok_clean_failure):
    print("\nDEFECT: a legal program without a single diagnostic: the run must succeed and write o.bin and o.lst.")
    print("Instead it exits with status", r.returncode, "after an internal error, and has nevertheless created", sorted(files))
    sys.exit(1)
print("OK")
