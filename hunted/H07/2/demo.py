"""C07: an output path that open() rejects outright (NUL character, lone surrogate) in make_bin / make_raw / make_wav
ends in 'An unexpected internal compiler error happened' + Python traceback instead of an error diagnostic."""
import os, shutil, subprocess, sys, tempfile
ROOT = "/tmp/wt/H07"
sys.path.insert(0, ROOT)
import pdpy11
assert pdpy11.__file__.startswith(ROOT + "/"), pdpy11.__file__

CASES = {
    "NUL via escape":      'make_bin "a\\x00b"\nnop\n',
    "NUL via <0>":         'make_raw "x" <0>\nnop\n',
    "lone surrogate":      'make_bin "a" <55296.>\nnop\n',      # chr(0xD800)
    "second of two files": 'make_raw "good.raw"\nmake_bin "a\\x00b"\nnop\n',
}
os.makedirs(ROOT + "/_scratch", exist_ok=True)
defect = False
for name, src in CASES.items():
    d = tempfile.mkdtemp(prefix="c07_2_", dir=ROOT + "/_scratch")
    try:
        with open(os.path.join(d, "a.mac"), "w") as f:
            f.write(src)
        r = subprocess.run([sys.executable, "-m", "pdpy11", "a.mac", "--report-format", "bare"],
                           cwd=d, env=dict(os.environ, PYTHONPATH=ROOT), capture_output=True)
        created = sorted(set(os.listdir(d)) - {"a.mac"})
    finally:
        shutil.rmtree(d, ignore_errors=True)
    internal = b"internal compiler error" in r.stderr or b"Traceback" in r.stderr
    diagnosed = b": Error: " in r.stdout
    last = r.stderr.decode(errors="replace").strip().splitlines()[-1] if r.stderr.strip() else ""
    print(f"{name:20} rc={r.returncode} error-diagnostic={diagnosed} internal-error={internal} files={created} | {last[:90]}")
    # from first principles: the file cannot be written, so the run must fail *because of an error diagnostic*
    # (like 'io-error' for any other unwritable path), never with a traceback
    if internal or not (r.returncode != 0 and diagnosed):
        defect = True
if defect:
    print("\nDEFECT: the run fails although no error-severity diagnostic was issued (internal error / traceback).")
    sys.exit(1)
print("OK")
