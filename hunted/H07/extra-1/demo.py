"""OUTSIDE C07 (side observation, wrong bytes): an '.include' whose path contains a '<x>' chunk with x defined further
down is postponed; the postponed statement is given size 0, so every label after it is too low by the size of the
included code. Legal program, no diagnostic, wrong image."""
import os, sys
ROOT = "/tmp/wt/H07"
sys.path.insert(0, ROOT)
import pdpy11
assert pdpy11.__file__.startswith(ROOT + "/"), pdpy11.__file__
from pdpy11 import parser, reports, bk_encoding
from pdpy11.compiler import Compiler

D = ROOT + "/_scratch/extra1"
os.makedirs(D, exist_ok=True)
with open(D + "/b.mac", "w") as f:
    f.write("nop\n")

def assemble(src):
    msgs = []
    def handler(priority, identifier, *spans): msgs.append((priority.raw_text, identifier))
    try:
        with reports.handle_reports(handler):
            base, code = Compiler().compile_and_link_files([parser.parse(D + "/a.mac", src)])
        return base, bytes(code), msgs
    except reports.UnrecoverableError:
        return None, None, msgs

# 143 octal = 'c', so the path is "b.mac" in both programs; they differ only in where x is defined
before = assemble('x = 143\n.include "b.ma" <x>\nl: .word l\n')
after = assemble('.include "b.ma" <x>\nl: .word l\nx = 143\n')
expected = (0o1000, b"\xa0\x00" + (0o1002).to_bytes(2, "little"), [])   # nop; l = 001002
print("x defined above:", before)
print("x defined below:", after)
print("expected       :", expected)
if before != expected or after != expected:
    print("\nDEFECT: label 'l' follows 2 bytes of included code and must be 001002 in both programs.")
    sys.exit(1)
print("OK")
