"""A parsed File (the input of Compiler.compile_and_link_files) carries state from
one assembly into the next: the second assembly of the SAME parsed object gives a
different result than the first (errors vanish, bytes depend on the earlier charset).
Exit status 1 while the defect is present."""
import sys
sys.path.insert(0, "/tmp/wt/G18")
import pdpy11
assert pdpy11.__file__.startswith("/tmp/wt/G18/"), pdpy11.__file__
from pdpy11 import parser, reports, bk_encoding  # noqa: F401
from pdpy11.compiler import Compiler


def assemble_parsed(files, charset="bk"):
    msgs = []
    def handler(priority, identifier, *spans):
        msgs.append((priority.raw_text, identifier, repr(spans[0][0]).rsplit("/", 1)[-1]))
    try:
        with reports.handle_reports(handler):
            base, code = Compiler(output_charset=charset).compile_and_link_files(files)
        return base, bytes(code), msgs
    except reports.UnrecoverableError:
        return None, None, msgs


def parse(src):
    with reports.handle_reports(lambda *a: None):
        return [parser.parse("/tmp/wt/G18/_scratch/probe.mac", src)]


bad = 0

# (a) '8' is not an octal digit: the program is illegal, every time it is assembled
files = parse(".word 8\n")
first = assemble_parsed(files)
second = assemble_parsed(files)
print("(a) .word 8            first:", first, " second:", second)
if first != second:
    print("    -> the second assembly of the same input silently accepts the illegal program")
    bad += 1

# (b) a label inside '.repeat' is illegal, every time
files = parse(".repeat 2 { a: }\n.word 1\n")
first = assemble_parsed(files)
second = assemble_parsed(files)
print("(b) .repeat 2 { a: }   first:", first, " second:", second)
if first != second:
    print("    -> the error is lost in the second assembly")
    bad += 1

# (c) the value of a character literal depends on the charset of the run; U+044B is
#     0xD9 in koi8-r and 0xFB in cp1251 (from first principles: Python's codecs)
files = parse(".word 'ы\n")
expect_cp1251 = "ы".encode("cp1251") + b"\x00"
assemble_parsed(files, charset="koi8-r")
got = assemble_parsed(files, charset="cp1251")
fresh = assemble_parsed(parse(".word 'ы\n"), charset="cp1251")
print("(c) .word 'ы  cp1251 after a koi8-r run:", got, " fresh:", fresh, " expected bytes:", expect_cp1251)
if got[1] != expect_cp1251:
    print("    -> wrong bytes: the value computed for the EARLIER run's charset is emitted")
    bad += 1

# (d) the compatibility warning of 'br 1 + 2' is lost (the AST is rewritten in place)
files = parse("1: br 1 + 2\n")
first = assemble_parsed(files)
second = assemble_parsed(files)
print("(d) 1: br 1 + 2        first:", first, " second:", second)
if first != second:
    print("    -> the warning is lost in the second assembly")
    bad += 1

if bad:
    print(f"DEFECT PRESENT: {bad} of 4 probes depend on what was assembled before")
    sys.exit(1)
print("OK: assembling a parsed file twice gives the same result")
sys.exit(0)
