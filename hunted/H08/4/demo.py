"""A file that includes itself is diagnosed ('recursive-include', 16 levels) only while the includes
nest dynamically. When the '.include' is evaluated late (inside a '.repeat' whose count is a forward
reference, or with a path that needs a forward reference) the depth counter is back to 0 every time:
endless inclusion -> RecursionError resp. a raw DeferredCycle out of compile_and_link_files."""
import os, sys, tempfile, traceback
sys.path.insert(0, "/tmp/wt/H08")
import pdpy11
assert pdpy11.__file__.startswith("/tmp/wt/H08/"), pdpy11.__file__
from pdpy11 import parser, reports, bk_encoding
from pdpy11.compiler import Compiler

CASES = {
    # control: the plain self-include is handled (critical 'recursive-include')
    "plain.mac": '.include "plain.mac"\n',
    # the same inside a '.repeat' with a count known only later
    "rep.mac": '.repeat n { .include "rep.mac" }\nn = 1\n',
    # path 's' + "elf.mac" where the first character comes from a constant defined further down
    "self.mac": '.include <c> "elf.mac"\nc = 163\n',      # 163 octal = 's'
}

def assemble(path, text):
    msgs = []
    def handler(priority, identifier, *spans): msgs.append((priority.raw_text, identifier))
    try:
        with reports.handle_reports(handler):
            base, code = Compiler().compile_and_link_files([parser.parse(path, text)])
        return "success", msgs, None
    except reports.UnrecoverableError:
        return "failure", msgs, None
    except BaseException as ex:   # RecursionError is an Exception, too; _cli.py prints 'unexpected internal compiler error'
        return "internal", msgs, f"{type(ex).__name__}: {ex}"

bad = 0
with tempfile.TemporaryDirectory() as tmp:
    for name, text in CASES.items():
        path = os.path.join(tmp, name)
        with open(path, "w") as f:
            f.write(text)
        outcome, msgs, ex = assemble(path, text)
        errors = [m for m in msgs if m[0] == "Error"]
        print("---", name, repr(text), "->", outcome, errors, ex or "")
        # First principles: each file includes itself without end, which is an error of the program.
        # The only acceptable outcome is failure with a diagnostic (as for plain.mac).
        if not (outcome == "failure" and errors):
            bad += 1
if bad:
    print(f"DEFECT PRESENT: {bad} of {len(CASES)} self-including files end in an internal exception instead of a diagnostic")
    sys.exit(1)
print("ok")
