"""'make_raw'/'make_bin'/'make_wav' with a path that open() refuses outright (NUL character, lone
surrogate): ValueError escapes Compiler.emit_files -> 'unexpected internal compiler error'."""
import os, subprocess, sys, tempfile
sys.path.insert(0, "/tmp/wt/H08")
import pdpy11
assert pdpy11.__file__.startswith("/tmp/wt/H08/"), pdpy11.__file__

PROGRAMS = [
    'nop\nmake_raw "out\\x00.raw"\n',        # escape \x00 in the string
    'nop\nmake_bin <0>\n',                    # <expr> chunk: the character with code 0
    'nop\nmake_wav <0xd800>, "NAME"\n',       # lone surrogate: open() raises UnicodeEncodeError (a ValueError)
]
env = dict(os.environ, PYTHONPATH="/tmp/wt/H08")
bad = 0
with tempfile.TemporaryDirectory() as tmp:
    for i, src in enumerate(PROGRAMS):
        path = os.path.join(tmp, f"p{i}.mac")
        with open(path, "w", encoding="utf-8") as f:
            f.write(src)
        proc = subprocess.run([sys.executable, "-m", "pdpy11", "--report-format", "bare", path],
                              cwd="/tmp/wt/H08", env=env, capture_output=True, text=True, timeout=60)
        out = proc.stdout + proc.stderr
        internal = "unexpected internal compiler error" in out
        diagnosed = ": Error:" in out or "Could not write" in out
        print("---", repr(src), "exit", proc.returncode, "| internal error path:", internal, "| diagnostic:", diagnosed)
        # First principles: the program is fine, only the output file cannot be created. The same
        # situation for a missing directory gives an 'io-error' diagnostic; that is what is expected here.
        if internal or (proc.returncode != 0 and not diagnosed):
            print("   ", out.strip().splitlines()[-1])
            bad += 1
if bad:
    print(f"DEFECT PRESENT: {bad} of {len(PROGRAMS)} programs reach the catch-all internal error handler")
    sys.exit(1)
print("ok")
