"""A second '.link' (or '. = ...') whose expression makes a postponed '.repeat' body run,
and that body sets the link base itself: Promise.settle() is called twice -> AssertionError."""
import sys, traceback
sys.path.insert(0, "/tmp/wt/H08")
import pdpy11
assert pdpy11.__file__.startswith("/tmp/wt/H08/"), pdpy11.__file__
from pdpy11 import parser, reports, bk_encoding
from pdpy11.compiler import Compiler

SOURCES = [
    # the count 'n' is a forward reference, so the body of '.repeat' is compiled only when
    # somebody needs the length of the block; the second '.link' needs '.', i.e. that length
    ".repeat n { .link 1000 }\nn = 1\n.link .\n",
    ".repeat n { . = 1000 }\nn = 1\n. = . + 2\n",
    ".repeat n { .link 1000 }\nn = 1\na:\n.link a\n",
]

def assemble(source):
    msgs = []
    def handler(priority, identifier, *spans): msgs.append((priority.raw_text, identifier))
    try:
        with reports.handle_reports(handler):
            files = [parser.parse("/tmp/wt/H08/_out/1/f0.mac", source)]
            base, code = Compiler().compile_and_link_files(files)
        return "success", msgs, None
    except reports.UnrecoverableError:
        return "failure", msgs, None
    except Exception:  # what _cli.py turns into 'An unexpected internal compiler error happened'
        return "internal", msgs, traceback.format_exc()

bad = 0
for src in SOURCES:
    outcome, msgs, tb = assemble(src)
    errors = [m for m in msgs if m[0] == "Error"]
    print("---", repr(src), "->", outcome, errors)
    # First principles: the link base is set twice (once by the '.repeat' body, once by the last
    # statement). Either a diagnostic (address-conflict / recursive-definition) and failure, or a
    # success are conceivable results; an internal exception is not.
    if outcome == "internal":
        print(tb.strip().splitlines()[-1], "<- internal exception, not a diagnostic")
        print("\n".join(tb.strip().splitlines()[-7:]))
        bad += 1
    elif outcome == "failure" and not errors:
        print("failure without any error diagnostic"); bad += 1
if bad:
    print(f"DEFECT PRESENT: {bad} of {len(SOURCES)} programs die with an internal exception")
    sys.exit(1)
print("ok: every program ends in success or in a reported error")
