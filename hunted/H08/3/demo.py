"""An included file that is abandoned half way (after a reported error) leaves behind a label whose
address depends on a postponed '.repeat { .include }' block. The final 'resolve all symbols' loop then
evaluates that block, which defines new symbols while compiler.symbols is being iterated:
RuntimeError 'dictionary changed size during iteration' instead of an orderly failure."""
import os, sys, tempfile, traceback
sys.path.insert(0, "/tmp/wt/H08")
import pdpy11
assert pdpy11.__file__.startswith("/tmp/wt/H08/"), pdpy11.__file__
from pdpy11 import parser, reports, bk_encoding
from pdpy11.compiler import Compiler

MAIN = '.include "mid.mac"\nn == 1\n'                      # n: exported constant, defined after the include
MID = ('.repeat n { .include "leaf.mac" }\n'               # count unknown yet -> body compiled lazily
       'il: nop\n'                                         # address of il = start + length of that block
       '.even 1\n')                                        # reported error (too many operands) -> rest of mid.mac dropped
LEAF = 'q: nop\n'

def assemble(directory):
    msgs = []
    def handler(priority, identifier, *spans): msgs.append((priority.raw_text, identifier))
    path = os.path.join(directory, "main.mac")
    try:
        with reports.handle_reports(handler):
            base, code = Compiler().compile_and_link_files([parser.parse(path, MAIN)])
        return "success", msgs, None
    except reports.UnrecoverableError:
        return "failure", msgs, None
    except Exception:
        return "internal", msgs, traceback.format_exc()

with tempfile.TemporaryDirectory() as tmp:
    for name, text in (("mid.mac", MID), ("leaf.mac", LEAF)):
        with open(os.path.join(tmp, name), "w") as f:
            f.write(text)
    outcome, msgs, tb = assemble(tmp)

errors = [m for m in msgs if m[0] == "Error"]
print("outcome:", outcome, "| diagnostics:", msgs)
# First principles: '.even 1' is wrong ('.even' takes no operand), so the run must FAIL with that
# diagnostic (reports.UnrecoverableError). Any other exception is the internal error path.
if outcome == "internal":
    print("\n".join(tb.strip().splitlines()[-4:]))
    print("DEFECT PRESENT: the run dies with an internal exception after the diagnostic")
    sys.exit(1)
if outcome != "failure" or ("Error", "wrong-meta-operands") not in errors:
    print("unexpected result (expected failure with wrong-meta-operands)")
    sys.exit(1)
print("ok: failure with", errors)
