"""The 'recursive-include' guard (16 levels) and legal include chains lose against Python's recursion
limit when every level sits inside a few nested '.repeat' blocks (nesting depth <= 8): RecursionError,
i.e. the 'unexpected internal compiler error' path, instead of a diagnostic resp. a success."""
import os, sys, tempfile
sys.path.insert(0, "/tmp/wt/H08")
import pdpy11
assert pdpy11.__file__.startswith("/tmp/wt/H08/"), pdpy11.__file__
from pdpy11 import parser, reports, bk_encoding
from pdpy11.compiler import Compiler

def assemble(path):
    msgs = []
    def handler(priority, identifier, *spans): msgs.append((priority.raw_text, identifier))
    try:
        with reports.handle_reports(handler):
            with open(path) as f:
                ast = parser.parse(path, f.read())
            base, code = Compiler().compile_and_link_files([ast])
        return "success", msgs, (base, bytes(code))
    except reports.UnrecoverableError:
        return "failure", msgs, None
    except BaseException as ex:
        return "internal", msgs, f"{type(ex).__name__}: {ex}"

def wrap(stmt, depth):
    return ".repeat 1 { " * depth + stmt + " }" * depth + "\n"

bad = 0
with tempfile.TemporaryDirectory() as tmp:
    # (a) an ILLEGAL program: self-inclusion, each level inside 6 nested '.repeat 1 { }'
    path = os.path.join(tmp, "selfnest.mac")
    with open(path, "w") as f:
        f.write(wrap('.include "selfnest.mac"', 6))
    outcome, msgs, extra = assemble(path)
    errors = [m for m in msgs if m[0] == "Error"]
    print("(a) self-include in 6 nested .repeat:", outcome, errors, extra if outcome == "internal" else "")
    # expectation: like the un-nested case, failure with 'recursive-include'
    if not (outcome == "failure" and errors):
        bad += 1

    # (b) a LEGAL program: chain c0 -> c1 -> ... -> c14 (15 files, below the limit of 16), 8 nested '.repeat 1' each, last one 'nop'
    levels, depth = 15, 8
    for i in range(levels):
        stmt = f'.include "c{i + 1}.mac"' if i < levels - 1 else "nop"
        with open(os.path.join(tmp, f"c{i}.mac"), "w") as f:
            f.write(wrap(stmt, depth))
    outcome, msgs, extra = assemble(os.path.join(tmp, "c0.mac"))
    print("(b) 15-file chain, 8 nested .repeat each:", outcome, msgs, extra)
    # expectation: every '.repeat 1' runs its body once, so the image is the single NOP 000240 at 01000
    if not (outcome == "success" and extra == (0o1000, b"\xa0\x00")):
        bad += 1
if bad:
    print(f"DEFECT PRESENT: {bad} of 2 cases end in RecursionError")
    sys.exit(1)
print("ok")
