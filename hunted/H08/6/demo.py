"""A decimal literal with more than 4300 digits: int(num, 10) in parser.number raises ValueError
(Python's int/str conversion limit) -> internal error instead of the 'value-out-of-bounds' report
that slightly shorter literals (and equally long octal/hex/binary ones) get."""
import sys, traceback
sys.path.insert(0, "/tmp/wt/H08")
import pdpy11
assert pdpy11.__file__.startswith("/tmp/wt/H08/"), pdpy11.__file__
from pdpy11 import parser, reports, bk_encoding
from pdpy11.compiler import Compiler

def assemble(source):
    msgs = []
    def handler(priority, identifier, *spans): msgs.append((priority.raw_text, identifier))
    try:
        with reports.handle_reports(handler):
            base, code = Compiler().compile_and_link_files([parser.parse("/tmp/wt/H08/_out/6/f0.mac", source)])
        return "success", msgs, None
    except reports.UnrecoverableError:
        return "failure", msgs, None
    except Exception as ex:
        return "internal", msgs, f"{type(ex).__name__}: {str(ex)[:90]}"

N = 4301
CASES = [
    ("control: 4300 digits, decimal", ".word " + "1" * 4300 + ".\n"),
    ("control: 4301 digits, octal", ".word " + "1" * N + "\n"),
    ("control: 4301 digits, ^X", ".word ^X" + "1" * N + "\n"),
    ("4301 digits with a dot (decimal)", ".word " + "1" * N + ".\n"),
    ("4301 digits with 8/9, no dot", ".word " + "9" * N + "\n"),
    ("4301 digits after ^D", ".word ^D" + "1" * N + "\n"),
    ("in an expression that would fit", "x = " + "1" + "0" * N + ". / " + "1" + "0" * N + ".\n.word x\n"),
]
bad = 0
for label, src in CASES:
    outcome, msgs, ex = assemble(src)
    errors = sorted({m[1] for m in msgs if m[0] == "Error"})
    print(f"{label:38s} -> {outcome:8s} {errors} {ex or ''}")
    # First principles: a word holds 16 bits, so these literals are out of range (or, in the last case,
    # fine: the quotient is 1). Either way the answer is success or a *reported* error, never an exception.
    if outcome == "internal" or (outcome == "failure" and not errors):
        bad += 1
if bad:
    print(f"DEFECT PRESENT: {bad} inputs end in an internal exception")
    sys.exit(1)
print("ok")
