"""Assembly time doubles with every '.even' (or '. = x') that follows a block whose size is a forward
reference - with '.link' FIRST, i.e. not the known 'late .link' situation. 30 such statements would
take hours, 60 (the bound of the property) longer than the universe: a hang for all practical purposes."""
import sys, time, signal
sys.path.insert(0, "/tmp/wt/H08")
import pdpy11
assert pdpy11.__file__.startswith("/tmp/wt/H08/"), pdpy11.__file__
from pdpy11 import parser, reports, bk_encoding
from pdpy11.compiler import Compiler

class Timeout(BaseException): pass
def on_alarm(*a): raise Timeout()
signal.signal(signal.SIGALRM, on_alarm)

def timed(source, limit):
    msgs = []
    def handler(priority, identifier, *spans): msgs.append((priority.raw_text, identifier))
    t0 = time.time()
    signal.alarm(limit)
    try:
        with reports.handle_reports(handler):
            base, code = Compiler().compile_and_link_files([parser.parse("/tmp/wt/H08/_out/7/f0.mac", source)])
        return time.time() - t0, "success", bytes(code)
    except reports.UnrecoverableError:
        return time.time() - t0, "failure", msgs
    except Timeout:
        return time.time() - t0, "timeout", None
    finally:
        signal.alarm(0)

def prog_even(n):   # 3 zero bytes, then n x '.even' (one pad byte in total), size known only at the end
    return ".link 1000\n.blkb a\n" + ".even\n" * n + "a = 3\n"
def prog_dot(n):    # n x '. = a + 2i' with 'a' defined at the end
    return ".link 1000\n" + "".join(f". = a + {2 * i}.\n" for i in range(n)) + "a = 2000\n"

bad = False
for name, prog, expect in (("'.blkb a' + n x '.even'", prog_even, lambda n: b"\0" * 4),
                           ("n x '. = a + 2i'", prog_dot, lambda n: b"\0" * (0o2000 - 0o1000 + 2 * (n - 1)))):
    times = {}
    for n in (10, 12, 14, 16):
        t, outcome, result = timed(prog(n), 120)
        ok = outcome == "success" and result == expect(n)
        times[n] = t
        print(f"{name:26s} n={n:2d}: {t:7.2f}s {outcome} {'(image as expected)' if ok else ''}")
        if outcome == "timeout":
            break
    # First principles: n+3 statements, each laid out once -> time should grow about linearly
    # (ratio t(16)/t(10) ~ 1.6). Exponential growth gives a ratio of ~64.
    ratio = times.get(16, 120.0) / max(times[10], 1e-3)
    projected = times.get(16, 120.0) * 2 ** (60 - 16)
    print(f"  t(16)/t(10) = {ratio:.0f}x; extrapolated to 60 statements: {projected / 3.15e7:.1e} years")
    if ratio > 16:
        bad = True
if bad:
    print("DEFECT PRESENT: exponential assembly time without any late '.link'")
    sys.exit(1)
print("ok")
